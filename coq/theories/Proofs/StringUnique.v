(** Strings: each (pattern, anchor) occurrence is reported at most once (C07).
    Part A: bind_all on position maps never duplicates an anchor. *)
From PM Require Import Model.Prelude Model.Domain Model.Constraint Model.BindAll Model.Automaton Model.Traversal
  Model.BindMaps Model.DomString Spec.Extends Spec.Occ Cert.CharCert Cert.WfCheck Cert.WinCheck Cert.UnambCheck
  Proofs.BindAllProofs Proofs.BindMapProofs Proofs.RunSound Proofs.LawfulDomains Proofs.CellsProofs
  Proofs.OccString Proofs.OccProofs Proofs.RunTrace Proofs.ToposortProofs Proofs.WfSound Proofs.WinSound
  Proofs.UnambSound Proofs.StringRun.
Local Open Scope N_scope.
Arguments N.max : simpl never.
Arguments N.add : simpl never.
Arguments N.ltb : simpl never.
Arguments N.eqb : simpl never.

Definition anchored_at (a : N) (m : spm) : bool :=
  match m with SBound a' _ => N.eqb a' a | SUnbound => false end.
Definition cnta (a : N) (l : list spm) : nat := length (filter (anchored_at a) l).

Lemma cnta_app a l1 l2 : cnta a (l1 ++ l2) = (cnta a l1 + cnta a l2)%nat.
Proof. unfold cnta. now rewrite filter_app, app_length. Qed.

(** bound with a positive extent inside the host *)
Definition posb (h : shost) (m : spm) : Prop :=
  exists a len, m = SBound a len /\ 0 < len /\ a + len <= blen h.

Lemma s_bind_key_bound h inc k a len :
  0 < len -> a + len <= blen h ->
  exists r, bind_key string_dom h inc k (SBound a len) = Ok r
    /\ (r = [] \/ exists len', r = [SBound a len'] /\ len <= len' /\ a + len' <= blen h).
Proof.
  intros Hl Hb. unfold bind_key. change (mget string_dom (SBound a len) k) with (sget (SBound a len) k).
  cbn [sget]. destruct (N.ltb_spec k len) as [Hk|Hk].
  - eexists. split; [reflexivity|]. right. exists len. split; auto. split; lia.
  - cbn [opts string_dom rbind]. unfold s_opts. destruct (N.eqb_spec k 0) as [->|Hk0]; [lia|].
    destruct (N.ltb_spec (a + k) (blen h)) as [Ho|Ho].
    + cbn [flat_map]. change (mbind string_dom (SBound a len) k (a + k)) with (sbind (SBound a len) k (a + k)).
      unfold sbind. destruct (N.eqb_spec k 0); [contradiction|]. cbn [app].
      eexists. split; [reflexivity|]. right. exists (N.max len (k + 1)). split; auto. split; lia.
    + destruct inc; eexists; (split; [reflexivity|]); [right; exists len; split; auto; split; lia|now left].
Qed.

Lemma cnta_posb_other h a m : posb h m -> (cnta a [m] <= 1)%nat.
Proof. intros _. unfold cnta. cbn. destruct (anchored_at a m); cbn; lia. Qed.

Lemma s_bind_key_list h inc k : forall ms,
  Forall (posb h) ms ->
  exists ms', rflatM (bind_key string_dom h inc k) ms = Ok ms'
    /\ Forall (posb h) ms' /\ forall a, (cnta a ms' <= cnta a ms)%nat.
Proof.
  induction ms as [|m ms IH]; intros HF.
  - exists []. cbn. split; auto.
  - inversion HF as [|x l Hm Hms]; subst. destruct Hm as [a0 [len [-> [Hl Hb]]]].
    destruct (s_bind_key_bound h inc k a0 len Hl Hb) as [r [Er Hr]].
    destruct (IH Hms) as [ms' [E' [F' C']]].
    exists (r ++ ms'). cbn [rflatM]. rewrite Er. cbn [rbind]. rewrite E'. cbn [rbind]. split; [reflexivity|]. split.
    + apply Forall_app. split; auto. destruct Hr as [->|[len' [-> [H1 H2]]]]; constructor; auto.
      exists a0, len'. split; auto. split; [lia|auto].
    + intros a. rewrite cnta_app. change (SBound a0 len :: ms) with ([SBound a0 len] ++ ms). rewrite cnta_app.
      specialize (C' a). destruct Hr as [->|[len' [-> _]]]; [unfold cnta at 1; cbn; lia|].
      assert (cnta a [SBound a0 len'] = cnta a [SBound a0 len]) as ->; [|lia].
      unfold cnta. cbn [filter anchored_at]. destruct (N.eqb a0 a); reflexivity.
Qed.

Lemma s_bind_list_bound h inc : forall ks ms,
  Forall (posb h) ms ->
  exists l, bind_all_list string_dom h inc ks ms = Ok l
    /\ Forall (posb h) l /\ forall a, (cnta a l <= cnta a ms)%nat.
Proof.
  induction ks as [|k ks IH]; intros ms HF.
  - exists ms. cbn. split; auto.
  - destruct (s_bind_key_list h inc k ms HF) as [ms' [E' [F' C']]].
    destruct (IH ms' F') as [l [El [Fl Cl]]]. exists l. cbn [bind_all_list]. rewrite E'. cbn [rbind].
    split; [exact El|]. split; auto. intros a. specialize (C' a). specialize (Cl a). lia.
Qed.

Lemma nseq_nodup n : NoDup (nseq n).
Proof.
  unfold nseq. generalize (N.to_nat n) as len. generalize 0%nat as st. intros st len. revert st.
  induction len as [|len IH]; intros st; cbn [seq map]; constructor; auto.
  intros Hin. apply in_map_iff in Hin as [y [Ey Hy]]. apply in_seq in Hy. lia.
Qed.

Lemma cnta_starts a (l : list N) : NoDup l -> (cnta a (map (fun v => SBound v 1) l) <= 1)%nat.
Proof.
  induction 1 as [|x l Hn Hd IH]; [cbn; lia|]. unfold cnta in *. cbn [map filter anchored_at].
  destruct (N.eqb_spec x a) as [->|Hx]; [|exact IH]. cbn [length].
  assert (filter (anchored_at a) (map (fun v => SBound v 1) l) = []) as ->; [|cbn; lia].
  clear IH Hd. induction l as [|y l IHl]; [reflexivity|]. cbn [map filter anchored_at].
  destruct (N.eqb_spec y a) as [->|Hy]; [exfalso; apply Hn; now left|]. apply IHl. intros C. apply Hn. now right.
Qed.

(** all results of bind_all from a well-formed map: bound inside the host (or the
    unbound map itself), each anchor at most once *)
Lemma s_bind_all_cnt h inc ks m l :
  bind_all string_dom h m ks inc = Ok l -> (m = SUnbound \/ posb h m) ->
  Forall (fun c => c = SUnbound \/ posb h c) l
  /\ (forall a, (cnta a l <= 1)%nat)
  /\ (posb h m -> Forall (posb h) l)
  /\ (forall ks', m = SUnbound -> ks = 0 :: ks' -> 0 < blen h -> Forall (posb h) l)
  /\ (forall a0 len, m = SBound a0 len -> forall c, In c l -> exists len', c = SBound a0 len').
Proof.
  unfold bind_all. intros B Hm0.
  cut (Forall (fun c => c = SUnbound \/ posb h c) l
       /\ (forall a, (cnta a l <= 1)%nat)
       /\ (posb h m -> Forall (posb h) l)).
  { intros [H1 [H2 H3]]. split; auto. split; auto. split; auto. split.
    - intros ks' -> -> Hb. cbn [bind_all_list rflatM] in B.
      unfold bind_key at 1 in B. change (mget string_dom SUnbound 0) with (sget SUnbound 0) in B. cbn [sget] in B.
      cbn [opts string_dom rbind] in B. unfold s_opts in B. rewrite N.eqb_refl in B.
      destruct (nseq (blen h)) as [|v vs] eqn:En.
      { exfalso. assert (In 0 (nseq (blen h))) by (apply nseq_in; exact Hb). rewrite En in H. destruct H. }
      rewrite <- En in B. cbn [rbind] in B.
      assert (Hfm : flat_map (fun v0 => match mbind string_dom SUnbound 0 v0 with Some m' => [m'] | None => [] end) (nseq (blen h))
                    = map (fun v0 => SBound v0 1) (nseq (blen h))).
      { clear. induction (nseq (blen h)) as [|x xs IHx]; [reflexivity|]. cbn [flat_map map].
        change (mbind string_dom SUnbound 0 x) with (Some (SBound x 1)). cbn [app]. now rewrite IHx. }
      rewrite Hfm in B. rewrite app_nil_r in B.
      assert (HF : Forall (posb h) (map (fun v0 => SBound v0 1) (nseq (blen h)))).
      { apply Forall_forall. intros c Hc. apply in_map_iff in Hc as [v0 [<- Hv0]]. apply nseq_in in Hv0.
        exists v0, 1. split; auto. split; lia. }
      destruct (s_bind_list_bound h inc ks' _ HF) as [l' [El [Fl Cl]]]. rewrite El in B. inversion B; subst l'. exact Fl.
    - intros a0 len -> c Hc.
      assert (Hp : posb h (SBound a0 len)) by (destruct Hm0 as [E|Hp]; [discriminate|exact Hp]).
      destruct (s_bind_list_bound h inc ks [SBound a0 len] (Forall_cons _ Hp (Forall_nil _))) as [l' [El [Fl Cl]]].
      rewrite El in B. inversion B; subst l'. rewrite Forall_forall in Fl. destruct (Fl c Hc) as [a' [len' [-> _]]].
      exists len'. f_equal. destruct (N.eq_dec a' a0) as [|Hne]; auto. exfalso.
      specialize (Cl a'). assert (cnta a' [SBound a0 len] = 0%nat) as E0.
      { unfold cnta. cbn [filter anchored_at]. destruct (N.eqb_spec a0 a'); [congruence|reflexivity]. }
      rewrite E0 in Cl. unfold cnta in Cl.
      assert (In (SBound a' len') (filter (anchored_at a') l)) by (apply filter_In; split; auto; cbn; apply N.eqb_refl).
      destruct (filter (anchored_at a') l); [destruct H|cbn in Cl; lia]. }
  destruct Hm0 as [->|Hm].
  - revert l B. induction ks as [|k ks IH]; intros l B.
    + cbn in B. inversion B; subst. split; [constructor; auto|]. split; [intros a; cbn; lia|].
      intros [a [len [E _]]]. discriminate.
    + cbn [bind_all_list rflatM] in B.
      unfold bind_key at 1 in B. change (mget string_dom SUnbound k) with (sget SUnbound k) in B. cbn [sget] in B.
      cbn [opts string_dom rbind] in B. unfold s_opts in B.
      assert (Hposb_nope : ~ posb h SUnbound) by (intros [a [len [E _]]]; discriminate).
      destruct (N.eqb_spec k 0) as [->|Hk].
      * destruct (nseq (blen h)) as [|v vs] eqn:En.
        -- destruct inc; cbn [rbind app] in B.
           ++ destruct (IH l B) as [H1 [H2 _]]. split; auto. split; auto. intros C. contradiction.
           ++ assert (l = []) as ->.
              { clear - B. revert B. induction ks; cbn; intros B; [now inversion B|auto]. }
              split; [constructor|]. split; [intros a; cbn; lia|constructor].
        -- rewrite <- En in B. cbn [rbind] in B.
           assert (Hfm : flat_map (fun v0 => match mbind string_dom SUnbound 0 v0 with Some m' => [m'] | None => [] end) (nseq (blen h))
                         = map (fun v0 => SBound v0 1) (nseq (blen h))).
           { clear. induction (nseq (blen h)) as [|x xs IHx]; [reflexivity|]. cbn [flat_map map].
             change (mbind string_dom SUnbound 0 x) with (Some (SBound x 1)). cbn [app]. now rewrite IHx. }
           rewrite Hfm in B. rewrite app_nil_r in B.
           assert (HF : Forall (posb h) (map (fun v0 => SBound v0 1) (nseq (blen h)))).
           { apply Forall_forall. intros c Hc. apply in_map_iff in Hc as [v0 [<- Hv0]]. apply nseq_in in Hv0.
             exists v0, 1. split; auto. split; lia. }
           destruct (s_bind_list_bound h inc ks _ HF) as [l' [El [Fl Cl]]]. rewrite El in B. inversion B; subst l'.
           split; [eapply Forall_impl; [|exact Fl]; intros c Hc; now right|]. split; [|intros C; contradiction].
           intros a. specialize (Cl a). pose proof (cnta_starts a _ (nseq_nodup (blen h))). lia.
      * cbn [rbind] in B. destruct inc; cbn [app rbind] in B.
        -- destruct (IH l B) as [H1 [H2 _]]. split; auto. split; auto. intros C. contradiction.
        -- assert (l = []) as ->.
           { clear - B. revert B. induction ks; cbn; intros B; [now inversion B|auto]. }
           split; [constructor|]. split; [intros a; cbn; lia|constructor].
  - destruct (s_bind_list_bound h inc ks [m] (Forall_cons _ Hm (Forall_nil _))) as [l' [El [Fl Cl]]].
    rewrite El in B. inversion B; subst l'. split; [eapply Forall_impl; [|exact Fl]; intros c Hc; now right|].
    split; [|auto]. intros a. specialize (Cl a). pose proof (cnta_posb_other h a m Hm). lia.
Qed.

Lemma cnta_unique a l c1 c2 :
  (cnta a l <= 1)%nat -> In c1 l -> In c2 l -> anchored_at a c1 = true -> anchored_at a c2 = true -> c1 = c2.
Proof.
  unfold cnta. induction l as [|x l IH]; intros Hc H1 H2 A1 A2; [destruct H1|].
  cbn [filter] in Hc. destruct (anchored_at a x) eqn:Ax.
  - cbn [length] in Hc. assert (Hnil : filter (anchored_at a) l = []) by (destruct (filter (anchored_at a) l); [auto|cbn in Hc; lia]).
    assert (Hnone : forall c, In c l -> anchored_at a c = true -> False).
    { intros c Hc' Ac. assert (In c (filter (anchored_at a) l)) by (apply filter_In; auto). rewrite Hnil in H. destruct H. }
    destruct H1 as [<-|H1], H2 as [<-|H2]; auto; exfalso; eauto.
  - destruct H1 as [<-|H1]; [congruence|]. destruct H2 as [<-|H2]; [congruence|]. auto.
Qed.

(** ** Part B: how a successor item is produced (generic), then the invariant of
    the items of a run on strings *)
Lemma filter_sat_nil {K V M H P} (D : DomOps K V M H P) h (m : M) l :
  filter_sat D h m l = Ok [] -> forall c t, In (c, t) l -> sat_or_false D h c m = Ok false.
Proof.
  induction l as [|[c0 t0] l IH]; intros R c t Hin; [destruct Hin|]. cbn in R.
  destruct (sat_or_false D h c0 m) as [b| |] eqn:S0; cbn in R; try discriminate.
  destruct (filter_sat D h m l) as [r'| |] eqn:R'; cbn in R; try discriminate.
  destruct b; [discriminate|]. inversion R; subst r'.
  destruct Hin as [Eq|Hin]; [inversion Eq; subst; exact S0|eauto].
Qed.

Lemma filter_sat_bwd {K V M H P} (D : DomOps K V M H P) h (m : M) l r t :
  filter_sat D h m l = Ok r -> In t r -> exists c, In (c, t) l /\ sat_or_false D h c m = Ok true.
Proof.
  revert r. induction l as [|[c0 t0] l IH]; intros r R Hin; cbn in R.
  - inversion R; subst. destruct Hin.
  - destruct (sat_or_false D h c0 m) as [b| |] eqn:S0; cbn in R; try discriminate.
    destruct (filter_sat D h m l) as [r'| |] eqn:R'; cbn in R; try discriminate.
    inversion R; subst. destruct b.
    + destruct Hin as [<-|Hin]; [exists c0; split; [now left|exact S0]|].
      destruct (IH r' eq_refl Hin) as [c [H1 H2]]. exists c. split; [now right|exact H2].
    + destruct (IH r' eq_refl Hin) as [c [H1 H2]]. exists c. split; [now right|exact H2].
Qed.

Lemma next_legal_inv {K V M H P} (D : DomOps K V M H P) h (st : astate K P) m ys t b :
  next_legal_states D h st m = Ok ys -> In (t, b) ys ->
  exists cands cand cts,
    bind_all D h m (a_scope st) true = Ok cands /\ In cand cands /\ mretain D (a_scope st) cand = Ok b
    /\ cons_transitions st = Ok cts
    /\ ((exists c, In (c, t) cts /\ sat_or_false D h c b = Ok true)
        \/ (fail_next_state st = Ok (Some t)
            /\ (a_det st = false \/ forall c t', In (c, t') cts -> sat_or_false D h c b = Ok false))).
Proof.
  intros N Hin. unfold next_legal_states in N.
  destruct (bind_all D h m (a_scope st) true) as [cands| |] eqn:B; cbn [rbind] in N; try discriminate.
  destruct (rmapM (mretain D (a_scope st)) cands) as [cands'| |] eqn:R; cbn [rbind] in N; try discriminate.
  destruct (cons_transitions st) as [cts| |] eqn:CT; cbn [rbind] in N; try discriminate.
  destruct (proj1 (rflatM_in _ _ _ _ N) Hin) as [b0 [zs [Hb [Hf Hy]]]].
  destruct (rmapM_bwd _ _ _ _ R Hb) as [cand [Hc Rm]].
  destruct (filter_sat D h b0 cts) as [fired| |] eqn:FS; cbn [rbind] in Hf; try discriminate.
  destruct (if negb (a_det st) || match fired with [] => true | _ => false end then fail_next_state st else Ok None)
    as [fail| |] eqn:FN; cbn [rbind] in Hf; try discriminate.
  inversion Hf; subst zs. exists cands, cand, cts.
  apply in_app_or in Hy as [Hy|Hy].
  - apply in_map_iff in Hy as [t0 [Et Ht]]. inversion Et; subst t0 b0.
    split; auto. split; auto. split; auto. split; auto. left. eapply filter_sat_bwd; eauto.
  - destruct fail as [t0|]; [|destruct Hy]. destruct Hy as [Et|[]]. inversion Et; subst t0 b0.
    split; auto. split; auto. split; auto. split; auto. right.
    destruct (a_det st) eqn:Ed; cbn [negb orb] in FN.
    + destruct fired as [|f fr]; [|discriminate]. split; [exact FN|]. right. eapply filter_sat_nil; eauto.
    + split; [exact FN|now left].
Qed.

(** the candidate that binds every offered scope key (forward direction) *)
Lemma s_good_cand h a m scope cands :
  bind_all string_dom h m scope true = Ok cands -> prereq_ordered string_dom scope -> scope <> [] ->
  anch a m -> a < blen h ->
  exists Lg, 0 < Lg /\ In (SBound a Lg) cands /\ forall k, In k scope -> a + k < blen h -> k < Lg.
Proof.
  intros B Ho Hne Hm Ha. apply bind_all_eq_spec in B.
  destruct scope as [|k0 ks]; [contradiction|]. pose proof (s_prereq_head _ k0 ks Ho eq_refl) as ->.
  destruct Hm as [->|[len [Hl ->]]].
  - exists (s_extend h a ks 1). pose proof (s_extend_ge h a ks 1). split; [lia|]. split.
    + apply (extend_rel string_dom h true (0 :: ks) SUnbound cands _ B). apply ext_rel_unbound; auto.
    + intros k [<-|Hk] Hoff; [lia|]. now apply s_extend_covers.
  - exists (s_extend h a (0 :: ks) len). pose proof (s_extend_ge h a (0 :: ks) len). split; [lia|]. split.
    + apply (extend_rel string_dom h true (0 :: ks) (SBound a len) cands _ B). apply ext_rel_bound; auto.
    + intros k Hk Hoff. now apply s_extend_covers.
Qed.

Lemma sat_unbound_false h c : sat_or_false string_dom h c SUnbound = Ok true -> False.
Proof.
  intros Hs. pose proof (sat_holds string_dom h c SUnbound Hs) as [vs [Rv Ck]].
  destruct c as [[|l] [|k ks]]; cbn in Rv, Ck; try discriminate.
Qed.

Lemma sval_noargs h a c : cargs c = [] -> sval h a c = false.
Proof. intros E. unfold sval. rewrite E. destruct c as [[|l] args]; cbn in *; subst; reflexivity. Qed.

Lemma sval_empty_host h a c : blen h = 0 -> sval h a c = false.
Proof.
  intros Hb. destruct (sval h a c) eqn:Hv; auto. exfalso.
  destruct (cargs c) as [|k ks] eqn:Ea; [rewrite (sval_noargs h a c Ea) in Hv; discriminate|].
  pose proof (sval_args_exist h a c k Hv). rewrite Ea in H. specialize (H (or_introl eq_refl)).
  pose proof (blen_ge_length h). lia.
Qed.

Section StringItems.
  Variable A : automaton N cpredicate.
  Variable ids : list N.
  Hypothesis HWF : WF string_dom A ids.
  Variable L : slabelling (K:=N) (P:=cpredicate).
  Hypothesis HL : slab_ok (char_ceqb N.eqb) (char_refutes N.eqb) A L = true.
  Variable h : shost.

  Notation lholds a := (label_holds (sval h a)).

  (** where the binding of a non-root item comes from *)
  Definition prov (t : N) (m : spm) : Prop :=
    (t = au_root A /\ m = SUnbound)
    \/ exists st_s e, In st_s (au_states A) /\ In e (a_out st_s) /\ e_target e = t
         /\ match m with
            | SUnbound => (a_scope st_s = [] \/ blen h = 0)
                          /\ forall a, exists l, In l (edge_labels L (st_s, e)) /\ lholds a l
            | SBound a len =>
                a_scope st_s <> []
                /\ (forall k, k < len <-> exists k', In k' (a_scope st_s) /\ k <= k' /\ a + k' < blen h)
                /\ (exists l, In l (edge_labels L (st_s, e)) /\ lholds a l)
                /\ (forall c, e_cons e = Some c -> sval h a c = true)
            end.

  Definition IInv (x : N * spm) : Prop :=
    prov (fst x) (snd x)
    /\ match snd x with
       | SUnbound => forall a, areach (sval h a) A (fst x)
       | SBound a len => 0 < len /\ a + len <= blen h /\ areach (sval h a) A (fst x)
       end.

  Lemma fail_next_edge st t : In st (au_states A) -> fail_next_state st = Ok (Some t) ->
    exists e, In e (a_out st) /\ e_target e = t /\ e_cons e = None.
  Proof.
    intros Hst. unfold fail_next_state. destruct (a_eorder st) as [|id [|id2 r]] eqn:Eo; try discriminate.
    destruct (find_edge (a_out st) id) as [e|] eqn:F; [|discriminate]. intros X. inversion X; subst.
    destruct (find_edge_in _ _ _ F) as [Hin Hid].
    destruct (wf_eorder _ _ _ HWF st Hst) as [_ Hiff].
    assert (Hid' : In id (a_eorder st)) by (rewrite Eo; now left).
    apply Hiff in Hid' as [e' [Hin' [Hid' Hc']]].
    assert (e = e') as ->; [|eauto].
    pose proof (wf_edge_ids _ _ _ HWF st Hst) as Hnd. clear - Hin Hin' Hid Hid' Hnd. subst id.
    induction (a_out st) as [|x l IH]; [destruct Hin|]. cbn in Hnd. inversion Hnd as [|? ? Hn Hd]; subst.
    destruct Hin as [->|Hin], Hin' as [->|Hin']; auto.
    - exfalso. apply Hn. rewrite <- Hid'. now apply in_map.
    - exfalso. apply Hn. rewrite Hid'. now apply in_map.
  Qed.

  Lemma const_sval_of_sat a len c : sat_or_false string_dom h c (SBound a len) = Ok true -> sval h a c = true.
  Proof. apply s_sval_of_sat. Qed.

  (** a constraint that is false of the delivered binding is false at (h, a) *)
  Lemma s_sat_false_sval a len c scope :
    sat_or_false string_dom h c (SBound a len) = Ok false -> incl (cargs c) scope ->
    (forall k, In k scope -> a + k < blen h -> k < len) -> sval h a c = false.
  Proof.
    intros Hs Hincl Hcov. destruct (sval h a c) eqn:Hv; auto. exfalso.
    assert (Hst : sat_or_false string_dom h c (SBound a len) = Ok true).
    { apply (s_sat_of_sval h a c); auto. intros k Hk. cbn. destruct (N.ltb_spec k len) as [|Hge]; [reflexivity|].
      exfalso. pose proof (sval_args_exist h a c k Hv Hk). pose proof (blen_ge_length h).
      specialize (Hcov k (Hincl k Hk)). lia. }
    congruence.
  Qed.

  Hypothesis HESC : empty_scope_closed A = true.

  (** a bound item whose state has a transition sits at a state with a non-empty scope *)
  Lemma bound_scope_nonempty s st a len e :
    get_state A s = Ok st -> prov s (SBound a len) -> In e (a_out st) -> a_scope st <> [].
  Proof.
    intros G [[_ E]|[st_s [e0 [Hs [He0 [Ht [Hne _]]]]]]] He; [discriminate|].
    intros Es. unfold empty_scope_closed in HESC. rewrite forallb_forall in HESC. specialize (HESC st_s Hs).
    rewrite forallb_forall in HESC. specialize (HESC e0 He0). rewrite Ht, G, Es in HESC.
    destruct (a_scope st_s); [contradiction|]. destruct (a_out st); [destruct He|discriminate].
  Qed.

  Lemma IInv_step x ys y : IInv x -> succ_of string_dom A h x ys -> In y ys -> IInv y.
  Proof.
    destruct x as [s m], y as [t b]. intros [Hprov Hm] [st [G NL]] Hy. cbn [fst snd] in *.
    destruct (get_state_in _ _ _ G) as [Hst Hid].
    pose proof (wf_scope_ordered _ _ _ HWF st Hst) as Hord. pose proof (s_prereq_goodb _ Hord) as Hg.
    destruct (next_legal_inv string_dom h st m ys t b NL Hy) as [cands [cand [cts [B [Hc [Rm [CT Hedge]]]]]]].
    assert (Hm0 : m = SUnbound \/ posb h m).
    { destruct m as [|a0 len]; [now left|right]. destruct Hm as [H1 [H2 _]]. exists a0, len. auto. }
    destruct (s_bind_all_cnt h true (a_scope st) m cands B Hm0) as [F1 [Cn [F2 [F3 F4]]]].
    assert (Hcov : forall c t', In (c, t') cts -> incl (cargs c) (a_scope st)).
    { intros c' t' Hin'. destruct (cons_transitions_edge st cts c' t' CT Hin') as [e' [He1 [He2 _]]].
      eapply (wf_scope_covers _ _ _ HWF); eauto. }
    (* the edge taken *)
    assert (Hed : exists e, In e (a_out st) /\ e_target e = t
                   /\ ((exists c, e_cons e = Some c /\ In (c, t) cts /\ sat_or_false string_dom h c b = Ok true)
                       \/ (e_cons e = None /\ fail_next_state st = Ok (Some t)
                           /\ (a_det st = false \/ forall c t', In (c, t') cts -> sat_or_false string_dom h c b = Ok false)))).
    { destruct Hedge as [[c [Hin Hs]]|[FN Hd]].
      - destruct (cons_transitions_edge st cts c t CT Hin) as [e [He1 [He2 He3]]]. exists e. split; auto. split; auto.
        left. exists c. auto.
      - destruct (fail_next_edge st t Hst FN) as [e [He1 [He2 He3]]]. exists e. split; auto. }
    destruct Hed as [e [He1 [He2 Hkind]]].
    destruct b as [|a Lb].
    - (* the successor is unbound: its source has an empty scope, or the host is empty *)
      assert (Hcase : a_scope st = [] \/ blen h = 0).
      { destruct (a_scope st) as [|k0 ks] eqn:Es; [now left|right].
        pose proof (s_prereq_head _ k0 ks Hord eq_refl) as ->.
        destruct (N.eq_dec (blen h) 0) as [|Hb]; auto. exfalso.
        assert (Hcp : posb h cand).
        { destruct Hm0 as [->|Hp].
          - assert (HF : Forall (posb h) cands) by (apply (F3 ks); auto; lia). rewrite Forall_forall in HF. auto.
          - specialize (F2 Hp). rewrite Forall_forall in F2. auto. }
        destruct Hcp as [a' [len' [-> [Hl' _]]]].
        destruct (s_retain_anch _ _ _ a' Hg Rm) as [_ [_ [Hbound _]]].
        destruct (Hbound len' Hl' eq_refl) as [l2 [_ E2]]; [discriminate|discriminate]. }
      assert (Hmu : m = SUnbound).
      { destruct m as [|a0 len]; auto. exfalso. destruct Hm as [Hl [Hb _]].
        destruct Hcase as [Es|Hb0]; [|lia].
        now apply (bound_scope_nonempty s st a0 len e G Hprov He1). }
      subst m.
      destruct Hkind as [[c [_ [_ Hs]]]|[Ec [FN Hd]]]; [exfalso; eapply sat_unbound_false; eauto|].
      assert (Hfalse : forall a c t', In (c, t') cts -> sval h a c = false).
      { intros a c t' Hct. destruct Hcase as [Es|Hb0]; [|now apply sval_empty_host].
        apply sval_noargs. pose proof (Hcov c t' Hct) as Hi. rewrite Es in Hi.
        destruct (cargs c) as [|k ?]; auto. exfalso. apply (Hi k). now left. }
      split.
      + right. exists st, e. split; auto. split; auto. split; auto. split; auto.
        intros a. cbn [snd] in Hm.
        destruct (slab_sound (char_ceqb N.eqb) (char_ceqb_spec N.eqb N.eqb_eq) (char_refutes N.eqb) (sval h a)
                    (s_refutes_sound h a) A L HL s (Hm a)) as [l0 [Hl0 Hh0]].
        unfold edge_labels. cbn [fst snd]. rewrite Hid.
        exists (fst l0, snd l0 ++ (if a_det st then match cons_transitions st with Ok cts0 => map fst cts0 | _ => [] end else [])).
        split. { apply in_map_iff. exists l0. rewrite Ec. auto. }
        destruct Hh0 as [P0 N0]. split; cbn [fst snd]; auto.
        intros c' Hc'. apply in_app_or in Hc' as [Hc'|Hc']; auto.
        destruct (a_det st) eqn:Ed; [|destruct Hc']. rewrite CT in Hc'.
        apply in_map_iff in Hc' as [[c0 t0] [<- Hct]]. cbn. eapply Hfalse; eauto.
      + intros a. apply (ar_eps (sval h a) A s st cts t (Hm a) G CT FN). destruct Hd as [Hd|Hd]; [now left|right].
        apply forallb_forall. intros [c t'] Hct. cbn. apply negb_true_iff. eapply Hfalse; eauto.
    - (* the successor is bound at a *)
      assert (Hne : a_scope st <> []).
      { intros Es. destruct (s_retain_anch _ _ _ a Hg Rm) as [_ [Hnil _]]. specialize (Hnil Es). discriminate. }
      (* the candidate is bound at a, inside the host *)
      assert (Hcand : exists Lc, cand = SBound a Lc /\ 0 < Lc /\ a + Lc <= blen h).
      { rewrite Forall_forall in F1. destruct (F1 cand Hc) as [->|[a' [l' [-> [Hl' Hb']]]]].
        - destruct (s_retain_anch _ _ _ a Hg Rm) as [_ [_ [_ Hu]]]. specialize (Hu eq_refl). discriminate.
        - destruct (s_retain_anch _ _ _ a' Hg Rm) as [_ [_ [Hbound _]]].
          destruct (Hbound l' Hl' eq_refl Hne) as [l2 [_ E2]]. inversion E2; subst. eauto. }
      destruct Hcand as [Lc [-> [HLc HbLc]]].
      assert (Ha : a < blen h) by lia.
      assert (Hanch : anch a m).
      { destruct m as [|a0 len]; [now left|right]. destruct (F4 a0 len eq_refl _ Hc) as [len' E]. inversion E; subst.
        destruct Hm as [Hl _]. eauto. }
      destruct (s_good_cand h a m (a_scope st) cands B Hord Hne Hanch Ha) as [Lg [HLg [Hgin Hgcov]]].
      assert (Lg = Lc) as ->.
      { assert (E : SBound a Lg = SBound a Lc); [|now inversion E].
        apply (cnta_unique a cands); auto; cbn; apply N.eqb_refl. }
      destruct (s_retain_anch _ _ _ a Hg Rm) as [Hk _].
      change (mretain string_dom (a_scope st) (SBound a Lc)) with (retain_rounds_default SUnbound sget sbind (a_scope st) (SBound a Lc)) in Rm.
      assert (H0in : In 0 (a_scope st)).
      { destruct (a_scope st) as [|k0 ks] eqn:Es; [contradiction|]. rewrite (s_prereq_head _ k0 ks Hord eq_refl). now left. }
      destruct (s_retain_tight (a_scope st) a Lc _ (proj1 Hord) H0in HLc Rm) as [L' [E' [HL' Htight]]].
      inversion E'; subst L'.
      (* which keys the delivered binding binds *)
      assert (Hiff : forall k, k < Lb <-> exists k', In k' (a_scope st) /\ k <= k' /\ a + k' < blen h).
      { intros k. split.
        - intros Hk'. destruct (Htight k Hk') as [k' [H1 [H2 H3]]]. exists k'. split; auto. split; auto. lia.
        - intros [k' [H1 [H2 H3]]]. specialize (Hgcov k' H1 H3). specialize (Hk k' H1). cbn in Hk.
          destruct (N.ltb_spec k' Lc); [|lia]. destruct (N.ltb_spec k' Lb); [lia|discriminate]. }
      assert (HLb : a + Lb <= blen h).
      { destruct (N.le_gt_cases Lb 0) as [|Hpos]; [lia|].
        destruct (Htight (Lb - 1)) as [k' [H1 [H2 H3]]]; [lia|]. lia. }
      assert (Hcovb : forall k, In k (a_scope st) -> a + k < blen h -> k < Lb).
      { intros k Hk1 Hk2. apply Hiff. exists k. split; auto. split; [lia|auto]. }
      (* the source is reached under the valuation of (h, a) *)
      assert (Hsrc : areach (sval h a) A s).
      { destruct m as [|a0 len]; [apply Hm|]. destruct (F4 a0 len eq_refl _ Hc) as [len' E]. inversion E; subst. apply Hm. }
      assert (Htgt : areach (sval h a) A t).
      { destruct Hkind as [[c [_ [Hin Hs]]]|[_ [FN Hd]]].
        - eapply ar_cons; eauto. eapply s_sval_of_sat; eauto.
        - eapply ar_eps; eauto. destruct Hd as [Hd|Hd]; [now left|right].
          apply forallb_forall. intros [c t'] Hct. cbn. apply negb_true_iff.
          eapply s_sat_false_sval; eauto. }
      split; [|cbn [snd fst]; split; [exact HL'|split; [exact HLb|exact Htgt]]].
      right. exists st, e. split; auto. split; auto. split; auto. split; auto. split; auto. split.
      + (* a label of the edge holds *)
        destruct (slab_sound (char_ceqb N.eqb) (char_ceqb_spec N.eqb N.eqb_eq) (char_refutes N.eqb) (sval h a)
                    (s_refutes_sound h a) A L HL s Hsrc) as [l0 [Hl0 Hh0]].
        unfold edge_labels. cbn [fst snd]. rewrite Hid.
        destruct Hkind as [[c [Ec [Hin Hs]]]|[Ec [FN Hd]]].
        * exists (fst l0 ++ [c], snd l0). split.
          { apply in_map_iff. exists l0. rewrite Ec. auto. }
          destruct Hh0 as [P0 N0]. split; cbn [fst snd]; auto.
          intros c' Hc'. apply in_app_or in Hc' as [Hc'|[<-|[]]]; auto. eapply s_sval_of_sat; eauto.
        * exists (fst l0, snd l0 ++ (if a_det st then match cons_transitions st with Ok cts0 => map fst cts0 | _ => [] end else [])).
          split. { apply in_map_iff. exists l0. rewrite Ec. auto. }
          destruct Hh0 as [P0 N0]. split; cbn [fst snd]; auto.
          intros c' Hc'. apply in_app_or in Hc' as [Hc'|Hc']; auto.
          destruct (a_det st) eqn:Ed; [|destruct Hc']. rewrite CT in Hc'.
          apply in_map_iff in Hc' as [[c0 t0] [<- Hct]]. cbn.
          destruct Hd as [Hd|Hd]; [discriminate|]. eapply s_sat_false_sval; eauto.
      + intros c Ec. destruct Hkind as [[c' [Ec' [Hin Hs]]]|[Ec' _]]; [|congruence].
        rewrite Ec in Ec'. inversion Ec'; subst c'. eapply s_sval_of_sat; eauto.
  Qed.

  Lemma IInv_root : IInv (au_root A, SUnbound).
  Proof. split; [left; auto|]. cbn. intros a. constructor. Qed.

  Lemma creach_IInv x : creach string_dom A h x -> IInv x.
  Proof. induction 1 as [|x ys y Hx IH Hs Hy]; [apply IInv_root|eapply IInv_step; eauto]. Qed.
End StringItems.

(** ** Part C: counting *)
Lemma min_above_spec scope k :
  match min_above scope k with
  | None => forall k', In k' scope -> k' < k
  | Some u => In u scope /\ k <= u /\ forall k', In k' scope -> k <= k' -> u <= k'
  end.
Proof.
  unfold min_above.
  assert (G : forall l acc,
    (match acc with None => True | Some u => k <= u end) ->
    match fold_left (fun acc k' => if k <=? k' then match acc with Some m => Some (N.min m k') | None => Some k' end else acc) l acc with
    | None => acc = None /\ forall k', In k' l -> k' < k
    | Some u => k <= u /\ (In u l \/ acc = Some u)
                /\ (forall k', In k' l -> k <= k' -> u <= k')
                /\ (forall v, acc = Some v -> u <= v)
    end).
  { induction l as [|x l IH]; intros acc Hacc; cbn [fold_left].
    - destruct acc as [u|]; [|split; [auto|intros k' []]]. split; auto. split; auto. split; [intros k' []|].
      intros v E. inversion E; subst. lia.
    - destruct (N.leb_spec k x) as [Hkx|Hkx].
      + set (acc' := match acc with Some m => Some (N.min m x) | None => Some x end).
        assert (Hacc' : match acc' with None => True | Some u => k <= u end).
        { unfold acc'. destruct acc as [m|]; cbn; lia. }
        specialize (IH acc' Hacc'). destruct (fold_left _ l acc') as [u|] eqn:F.
        * destruct IH as [H1 [H2 [H3 H4]]]. split; auto. split.
          { destruct H2 as [H2|H2]; [left; now right|]. unfold acc' in H2.
            destruct acc as [m|]; inversion H2; subst.
            - destruct (N.min_spec m x) as [[_ ->]|[_ ->]]; [now right|left; now left].
            - left. now left. }
          split.
          { intros k' [<-|Hk'] Hk; [|auto]. unfold acc' in H4. destruct acc as [m|].
            - specialize (H4 _ eq_refl). lia.
            - specialize (H4 _ eq_refl). lia. }
          intros v E. subst acc. unfold acc' in H4. specialize (H4 _ eq_refl). lia.
        * destruct IH as [E _]. unfold acc' in E. destruct acc; discriminate.
      + specialize (IH acc Hacc). destruct (fold_left _ l acc) as [u|] eqn:F.
        * destruct IH as [H1 [H2 [H3 H4]]]. split; auto. split; [destruct H2; [left; now right|now right]|].
          split; auto. intros k' [<-|Hk'] Hk; [lia|auto].
        * destruct IH as [E H]. split; auto. intros k' [<-|Hk']; auto. }
  specialize (G scope None I). cbn in G.
  destruct (fold_left _ scope None) as [u|].
  - destruct G as [H1 [[H2|H2] [H3 _]]]; [|discriminate]. auto.
  - apply G.
Qed.

Lemma bound_from_min scope k a B :
  (exists k', In k' scope /\ k <= k' /\ a + k' < B) <-> (exists u, min_above scope k = Some u /\ a + u < B).
Proof.
  pose proof (min_above_spec scope k) as Hs. split.
  - intros [k' [H1 [H2 H3]]]. destruct (min_above scope k) as [u|].
    + exists u. split; auto. destruct Hs as [_ [_ Hmin]]. specialize (Hmin k' H1 H2). lia.
    + specialize (Hs k' H1). lia.
  - intros [u [E Hu]]. rewrite E in Hs. destruct Hs as [H1 [H2 _]]. exists u. auto.
Qed.

Lemma offered_by_bound h a (e : edge N cpredicate) :
  a <= blen h -> (forall c, e_cons e = Some c -> sval h a c = true) -> a + offered_by e <= blen h.
Proof.
  intros Ha Hc. unfold offered_by. destruct (e_cons e) as [c|]; [|lia]. specialize (Hc c eq_refl).
  assert (G : forall l acc, a + acc <= blen h -> (forall k, In k l -> a + k < blen h) ->
              a + fold_left (fun acc k => N.max acc (k + 1)) l acc <= blen h).
  { induction l as [|k l IH]; intros acc H0 Hl; cbn [fold_left]; auto. apply IH.
    - specialize (Hl k (or_introl eq_refl)). lia.
    - intros k' Hk'. apply Hl. now right. }
  apply G; [lia|]. intros k Hk. pose proof (sval_args_exist h a c k Hc Hk). pose proof (blen_ge_length h). lia.
Qed.

Lemma s_retain_cnt h keys : s_goodb keys = true -> forall bs bs',
  rmapM (mretain string_dom keys) bs = Ok bs' -> Forall (fun c => c = SUnbound \/ posb h c) bs ->
  (forall a, (cnta a bs' <= cnta a bs)%nat)
  /\ (forall a0, (forall c, In c bs -> c = SUnbound \/ exists len, c = SBound a0 len) ->
                 forall c, In c bs' -> c = SUnbound \/ exists len, c = SBound a0 len).
Proof.
  intros Hg. induction bs as [|b bs IH]; intros bs' R HF; cbn [rmapM] in R.
  - inversion R; subst. split; [intros a; lia|intros a0 _ c []].
  - destruct (mretain string_dom keys b) as [b'| |] eqn:Rb; cbn [rbind] in R; try discriminate.
    destruct (rmapM (mretain string_dom keys) bs) as [r| |] eqn:Rr; cbn [rbind] in R; try discriminate.
    injection R as <-. inversion HF as [|? ? Hb Hbs]; subst.
    destruct (IH r eq_refl Hbs) as [IH1 IH2].
    assert (Hb' : (b = SUnbound /\ b' = SUnbound) \/ exists a' len, b = SBound a' len /\ (b' = SUnbound \/ exists len', b' = SBound a' len')).
    { destruct Hb as [->|[a' [len [-> [Hl _]]]]].
      - left. split; auto. destruct (s_retain_anch _ _ _ 0 Hg Rb) as [_ [_ [_ Hu]]]. auto.
      - right. exists a', len. split; auto. destruct (s_retain_anch _ _ _ a' Hg Rb) as [_ [Hnil [Hbound _]]].
        destruct keys as [|k ks]; [left; auto|right]. destruct (Hbound len Hl eq_refl) as [len' [_ ->]]; [discriminate|eauto]. }
    split.
    + intros a. specialize (IH1 a). change (b' :: r) with ([b'] ++ r). change (b :: bs) with ([b] ++ bs).
      rewrite !cnta_app. assert ((cnta a [b'] <= cnta a [b])%nat); [|lia].
      unfold cnta. cbn [filter]. destruct Hb' as [[-> ->]|[a' [len [-> [->|[len' ->]]]]]]; cbn [anchored_at]; auto;
        destruct (N.eqb a' a); cbn; lia.
    + intros a0 Hall c [<-|Hc].
      * destruct Hb' as [[_ ->]|[a' [len [Eb [->|[len' ->]]]]]]; auto. right.
        destruct (Hall b (or_introl eq_refl)) as [E|[l0 E]]; [subst; discriminate|]. rewrite Eb in E. inversion E; subst. eauto.
      * apply (IH2 a0); auto. intros c' Hc'. apply Hall. now right.
Qed.

Definition is_ia (i a : N) (pm : N * spm) : bool := N.eqb (fst pm) i && anchored_at a (snd pm).
Definition cnt (i a : N) (ms : list (N * spm)) : nat := length (filter (is_ia i a) ms).

Lemma cnt_app i a l1 l2 : cnt i a (l1 ++ l2) = (cnt i a l1 + cnt i a l2)%nat.
Proof. unfold cnt. now rewrite filter_app, app_length. Qed.

Lemma cnt_map_pid i a pid bs :
  cnt i a (map (fun b => (pid, b)) bs) = if N.eqb pid i then cnta a bs else 0%nat.
Proof.
  unfold cnt, cnta. induction bs as [|b bs IH]; cbn [map filter]; [destruct (N.eqb pid i); reflexivity|].
  unfold is_ia at 1. cbn [fst snd]. destruct (N.eqb pid i) eqn:E; cbn [andb].
  - destruct (anchored_at a b); cbn [length]; rewrite IH; reflexivity.
  - exact IH.
Qed.

(** the matches emitted at one item: each (pattern, anchor) at most once, only for
    patterns the state accepts, and only at the anchor of a bound item *)
Lemma s_emit_cnt h (st : astate N cpredicate) m e i a :
  (forall pk, In pk (a_matches st) -> prereq_ordered string_dom (snd pk)) ->
  NoDup (map fst (a_matches st)) ->
  (m = SUnbound \/ posb h m) ->
  emissions string_dom h st m = Ok e ->
  (cnt i a e <= 1)%nat
  /\ ((0 < cnt i a e)%nat -> In i (map fst (a_matches st)) /\ (m = SUnbound \/ exists len, m = SBound a len)).
Proof.
  intros Hord Hnd Hm. unfold emissions. revert e. induction (a_matches st) as [|[pid keys] l IH]; intros e Em.
  - cbn in Em. inversion Em; subst. cbn. split; [lia|intros C; lia].
  - cbn [rflatM] in Em.
    match type of Em with rbind ?x _ = _ => destruct x as [e1| |] eqn:E1 end; cbn [rbind] in Em; try discriminate.
    destruct (rflatM _ l) as [e'| |] eqn:E'; cbn [rbind] in Em; try discriminate. inversion Em; subst e.
    inversion Hnd as [|? ? Hni Hnd']; subst.
    destruct (IH (fun pk Hpk => Hord pk (or_intror Hpk)) Hnd' e' eq_refl) as [IH1 IH2].
    (* the entry at the head *)
    set (new_keys := filter (fun k => match mget string_dom m k with None => true | Some _ => false end) keys) in E1.
    destruct (match new_keys with [] => Ok [m] | _ => bind_all string_dom h m new_keys false end) as [bs| |] eqn:B;
      cbn [rbind] in E1; try discriminate.
    destruct (rmapM (mretain string_dom keys) bs) as [bs'| |] eqn:R; cbn [rbind] in E1; try discriminate.
    inversion E1; subst e1.
    pose proof (s_prereq_goodb _ (Hord (pid, keys) (or_introl eq_refl))) as Hg. cbn [snd] in Hg.
    assert (Hbs : Forall (fun c => c = SUnbound \/ posb h c) bs /\ (forall a', (cnta a' bs <= 1)%nat)
                  /\ (forall a0 len, m = SBound a0 len -> forall c, In c bs -> c = SUnbound \/ exists len', c = SBound a0 len')).
    { destruct new_keys as [|k1 nk].
      - inversion B; subst bs. split; [constructor; auto|]. split.
        + intros a'. unfold cnta. cbn. destruct (anchored_at a' m); cbn; lia.
        + intros a0 len -> c [<-|[]]. right. eauto.
      - destruct (s_bind_all_cnt h false (k1 :: nk) m bs B Hm) as [F1 [Cn [_ [_ F4]]]]. split; auto. split; auto.
        intros a0 len E c Hc. right. eapply F4; eauto. }
    destruct Hbs as [HF [Hcn Hanc]].
    destruct (s_retain_cnt h keys Hg bs bs' R HF) as [Rc Ra].
    rewrite cnt_app, cnt_map_pid.
    assert (Hrest : ~ In i (map fst l) -> cnt i a e' = 0%nat).
    { intros Hn. destruct (cnt i a e') eqn:Ec; auto. exfalso. apply Hn. apply IH2. lia. }
    destruct (N.eqb_spec pid i) as [->|Hpi].
    + rewrite (Hrest Hni). specialize (Rc a). specialize (Hcn a). split; [lia|].
      intros Hpos. split; [now left|].
      destruct m as [|a0 len]; [now left|right].
      assert (Hex : exists c, In c bs' /\ anchored_at a c = true).
      { unfold cnta in Hpos. destruct (filter (anchored_at a) bs') as [|c r] eqn:Ef; [cbn in Hpos; lia|].
        assert (Hin : In c (filter (anchored_at a) bs')) by (rewrite Ef; now left). apply filter_In in Hin. eauto. }
      destruct Hex as [c [Hc Hac]].
      destruct (Ra a0 (Hanc a0 len eq_refl) c Hc) as [->|[len' ->]]; [discriminate|].
      cbn in Hac. apply N.eqb_eq in Hac. subst. eauto.
    + cbn [plus]. split; [exact IH1|]. intros Hpos. destruct (IH2 Hpos) as [H1 H2]. split; [now right|exact H2].
Qed.

Section StringUniqueMain.
  Variable A : automaton N cpredicate.
  Variable ids : list N.
  Hypothesis HWF : WF string_dom A ids.
  Variable L : slabelling (K:=N) (P:=cpredicate).
  Hypothesis HL : slab_ok (char_ceqb N.eqb) (char_refutes N.eqb) A L = true.
  Hypothesis HU : cert_unamb (char_ceqb N.eqb) (char_refutes N.eqb) A L = true.
  Hypothesis HV : accept_vdet A L = true.
  Hypothesis HESC : empty_scope_closed A = true.
  Variable h : shost.

  Lemma no_edge_into_root st_s e : In st_s (au_states A) -> In e (a_out st_s) -> e_target e = au_root A -> False.
  Proof.
    intros Hs He Ht. destruct (wf_acyclic _ _ _ HWF) as [rank Hrank].
    assert (Hle : forall x, reachable A x -> (rank (au_root A) <= rank x)%nat).
    { induction 1 as [|s0 e0 Hr IH Hs0 He0]; [lia|]. specialize (Hrank s0 e0 Hs0 He0). lia. }
    specialize (Hrank st_s e Hs He). rewrite Ht in Hrank.
    specialize (Hle _ (wf_reachable _ _ _ HWF st_s Hs)). lia.
  Qed.

  Lemma sget_bound_lt' s len k : sget (SBound s len) k = if k <? len then Some (s + k) else None.
  Proof. reflexivity. Qed.

  Lemma items_same_view t st m1 m2 i a :
    get_state A t = Ok st -> In i (map fst (a_matches st)) ->
    IInv A L h (t, m1) -> IInv A L h (t, m2) ->
    (m1 = SUnbound \/ exists len, m1 = SBound a len) -> (m2 = SUnbound \/ exists len, m2 = SBound a len) ->
    view string_dom st m1 = view string_dom st m2.
  Proof.
    intros G Hi [P1 I1] [P2 I2] M1 M2. cbn [fst snd] in *.
    destruct (get_state_in _ _ _ G) as [Hst Hid].
    destruct P1 as [[R1 E1]|[s1 [e1 [Hs1 [He1 [Ht1 Q1]]]]]], P2 as [[R2 E2]|[s2 [e2 [Hs2 [He2 [Ht2 Q2]]]]]].
    - subst. reflexivity.
    - exfalso. rewrite R1 in Ht2. exact (no_edge_into_root s2 e2 Hs2 He2 Ht2).
    - exfalso. rewrite R2 in Ht1. exact (no_edge_into_root s1 e1 Hs1 He1 Ht1).
    - (* both delivered by transitions into t *)
      assert (Hne : a_matches st <> []) by (intros C; rewrite C in Hi; destruct Hi).
      unfold accept_vdet in HV. rewrite forallb_forall in HV. specialize (HV st Hst).
      destruct (a_matches st) as [|pk0 mt] eqn:Em; [contradiction|]. rewrite <- Em in *. clear Em pk0 mt.
      assert (Hinc : forall s e, In s (au_states A) -> In e (a_out s) -> e_target e = t -> In (s, e) (incoming A (a_id st))).
      { intros s e Hs He Ht. unfold incoming. apply in_flat_map. exists s. split; auto. apply in_flat_map. exists e. split; auto.
        rewrite Ht, Hid, N.eqb_refl. now left. }
      assert (HV' : (fun e1 => forallb (fun e2 => edges_agree st e1 e2
                       || forallb (fun l1 => forallb (contradict (char_ceqb N.eqb) (char_refutes N.eqb) l1) (edge_labels L e2))
                                  (edge_labels L e1)) (incoming A (a_id st))) (s1, e1) = true).
      { destruct (a_matches st); [contradiction|]. rewrite forallb_forall in HV. apply HV. auto. }
      cbn beta in HV'. rewrite forallb_forall in HV'. specialize (HV' (s2, e2) (Hinc s2 e2 Hs2 He2 Ht2)).
      (* labels that hold under the valuation of (h, a) *)
      assert (HL1 : exists l, In l (edge_labels L (s1, e1)) /\ label_holds (sval h a) l).
      { destruct M1 as [->|[len ->]]; [apply Q1|apply Q1]. }
      assert (HL2 : exists l, In l (edge_labels L (s2, e2)) /\ label_holds (sval h a) l).
      { destruct M2 as [->|[len ->]]; [apply Q2|apply Q2]. }
      destruct HL1 as [l1 [Hl1 Hh1]], HL2 as [l2 [Hl2 Hh2]].
      apply orb_true_iff in HV' as [Hag|Hcon].
      2:{ exfalso. rewrite forallb_forall in Hcon. specialize (Hcon l1 Hl1). rewrite forallb_forall in Hcon.
          specialize (Hcon l2 Hl2).
          eapply (contradict_sound (char_ceqb N.eqb) (char_ceqb_spec N.eqb N.eqb_eq) (char_refutes N.eqb) (sval h a) (s_refutes_sound h a)); eauto. }
      unfold edges_agree in Hag. cbn [fst snd] in Hag. apply andb_true_iff in Hag as [Hflag Hkeys].
      destruct M1 as [->|[len1 ->]], M2 as [->|[len2 ->]].
      + reflexivity.
      + exfalso. destruct Q1 as [[Es|Hb] _], Q2 as [Hn2 _], I2 as [Hl2' [Hb2 _]]; [|lia].
        rewrite Es in Hflag. destruct (a_scope s2); [contradiction|discriminate].
      + exfalso. destruct Q2 as [[Es|Hb] _], Q1 as [Hn1 _], I1 as [Hl1' [Hb1 _]]; [|lia].
        rewrite Es in Hflag. destruct (a_scope s1); [contradiction|discriminate].
      + destruct Q1 as [_ [Hiff1 [_ Hc1]]], Q2 as [_ [Hiff2 [_ Hc2]]]. destruct I1 as [Hp1 [Hb1 _]], I2 as [Hp2 [Hb2 _]].
        assert (Ha : a <= blen h) by lia.
        pose proof (offered_by_bound h a e1 Ha Hc1) as Ho1. pose proof (offered_by_bound h a e2 Ha Hc2) as Ho2.
        unfold view. apply map_ext_in. intros k Hk.
        change (mget string_dom (SBound a len1) k) with (sget (SBound a len1) k).
        change (mget string_dom (SBound a len2) k) with (sget (SBound a len2) k).
        rewrite !sget_bound_lt'.
        assert (Heq : k < len1 <-> k < len2).
        { rewrite Hiff1, Hiff2, !bound_from_min.
          rewrite forallb_forall in Hkeys. specialize (Hkeys k Hk). unfold key_sig_eqb in Hkeys.
          apply orb_true_iff in Hkeys as [Heq|Hboth].
          - apply (option_eqb_spec N.eqb N.eqb_eq) in Heq. rewrite Heq. reflexivity.
          - destruct (min_above (a_scope s1) k) as [x|], (min_above (a_scope s2) k) as [y|]; try discriminate.
            apply andb_true_iff in Hboth as [Hx Hy]. apply N.ltb_lt in Hx, Hy.
            split; intros _; eexists; split; eauto; lia. }
        destruct (N.ltb_spec k len1), (N.ltb_spec k len2); auto; exfalso; [apply Heq in H; lia|apply Heq in H0; lia].
  Qed.

  Notation item := (N * spm)%type.
  Notation emit_of' := (emit_of string_dom A h).

  Lemma emit_of_fun x e e' : emit_of' x e -> emit_of' x e' -> e = e'.
  Proof. intros [s [G E]] [s' [G' E']]. rewrite G in G'. inversion G'; subst. rewrite E in E'. now inversion E'. Qed.

  Variables i a : N.
  Definition contributes (x : item) : Prop := exists e, emit_of' x e /\ (0 < cnt i a e)%nat.

  Lemma emits_none T ms : emits_all string_dom A h T ms -> (forall x, In x T -> ~ contributes x) -> cnt i a ms = 0%nat.
  Proof.
    induction 1 as [|x e T ms He HT IH]; intros Hn; [reflexivity|]. rewrite cnt_app.
    rewrite IH by (intros y Hy; apply Hn; now right).
    destruct (cnt i a e) eqn:Ec; auto. exfalso. apply (Hn x (or_introl eq_refl)). exists e. split; auto. lia.
  Qed.

  Lemma emits_at_most_one T ms :
    emits_all string_dom A h T ms -> NoDup (map (kview string_dom A) T) ->
    (forall x e, In x T -> emit_of' x e -> (cnt i a e <= 1)%nat) ->
    (forall x y, In x T -> In y T -> contributes x -> contributes y -> kview string_dom A x = kview string_dom A y) ->
    (cnt i a ms <= 1)%nat.
  Proof.
    induction 1 as [|x e T ms He HT IH]; intros Hnd H1 Hpair; [cbn; lia|]. rewrite cnt_app.
    cbn [map] in Hnd. inversion Hnd as [|? ? Hni Hnd']; subst.
    destruct (cnt i a e) eqn:Ec.
    - cbn [plus]. apply IH; auto.
      + intros y e' Hy. apply H1. now right.
      + intros y z Hy Hz. apply Hpair; now right.
    - assert (Hx : contributes x) by (exists e; split; auto; lia).
      rewrite (emits_none T ms HT).
      + specialize (H1 x e (or_introl eq_refl) He). lia.
      + intros y Hy Cy. apply Hni. rewrite (Hpair x y (or_introl eq_refl) (or_intror Hy) Hx Cy). now apply in_map.
  Qed.

  (** each (pattern, anchor) pair is reported at most once *)
  Theorem s_run_unique fuel ms :
    run string_dom fuel A h = Ok ms -> (cnt i a ms <= 1)%nat.
  Proof.
    intros R.
    destruct (run_trace string_dom string_dom_eq A h fuel ms R) as [T [_ [_ [_ [_ [T5 [Tnd Tem]]]]]]].
    assert (HI : forall x, In x T -> IInv A L h x).
    { intros x Hx. apply (creach_IInv A ids HWF L HL h HESC). now apply (trace_creach string_dom A h T T5). }
    assert (Hcnt : forall x e, In x T -> emit_of' x e ->
              (cnt i a e <= 1)%nat
              /\ ((0 < cnt i a e)%nat -> exists st, get_state A (fst x) = Ok st /\ In i (map fst (a_matches st))
                                           /\ (snd x = SUnbound \/ exists len, snd x = SBound a len))).
    { intros [t m] e Hx [st [G Em]]. cbn [fst snd] in *. destruct (get_state_in _ _ _ G) as [Hst _].
      destruct (HI _ Hx) as [_ Hm]. cbn [fst snd] in Hm.
      assert (Hm0 : m = SUnbound \/ posb h m).
      { destruct m as [|a0 len]; [now left|right]. destruct Hm as [H1 [H2 _]]. exists a0, len. auto. }
      destruct (s_emit_cnt h st m e i a (fun pk Hpk => wf_match_ordered _ _ _ HWF st pk Hst Hpk)
                  (cert_unamb_nodup (char_ceqb N.eqb) (char_refutes N.eqb) A L st HU Hst) Hm0 Em) as [C1 C2].
      split; auto. intros Hpos. destruct (C2 Hpos). exists st. auto. }
    apply (emits_at_most_one T ms Tem Tnd).
    - intros x e Hx He. apply (Hcnt x e Hx He).
    - intros [t1 m1] [t2 m2] Hx Hy [e1 [He1 Hp1]] [e2 [He2 Hp2]].
      destruct (proj2 (Hcnt _ _ Hx He1) Hp1) as [st1 [G1 [Hi1 M1]]].
      destruct (proj2 (Hcnt _ _ Hy He2) Hp2) as [st2 [G2 [Hi2 M2]]]. cbn [fst snd] in *.
      pose proof (HI _ Hx) as I1. pose proof (HI _ Hy) as I2.
      assert (R1 : areach (sval h a) A t1).
      { destruct I1 as [_ I1]. cbn [fst snd] in I1. destruct M1 as [->|[len ->]]; [apply I1|apply I1]. }
      assert (R2 : areach (sval h a) A t2).
      { destruct I2 as [_ I2]. cbn [fst snd] in I2. destruct M2 as [->|[len ->]]; [apply I2|apply I2]. }
      pose proof (cert_unamb_sound (char_ceqb N.eqb) (char_ceqb_spec N.eqb N.eqb_eq) (char_refutes N.eqb) (sval h a)
                    (s_refutes_sound h a) A L HL t1 t2 st1 st2 i HU R1 R2 G1 G2 Hi1 Hi2) as Et. subst t2.
      rewrite G1 in G2. inversion G2; subst st2.
      unfold kview. cbn [fst snd]. rewrite G1. f_equal. f_equal.
      eapply items_same_view; eauto.
  Qed.
End StringUniqueMain.

(** ** exactly once *)
Definition s_unamb_certified (A : automaton N cpredicate) (Ls : slabelling (K:=N) (P:=cpredicate)) : Prop :=
  slab_ok (char_ceqb N.eqb) (char_refutes N.eqb) A Ls = true
  /\ cert_unamb (char_ceqb N.eqb) (char_refutes N.eqb) A Ls = true
  /\ accept_vdet A Ls = true
  /\ empty_scope_closed A = true.

Lemma cnt_pos_in i a ms : (0 < cnt i a ms)%nat <-> exists len, In (i, SBound a len) ms.
Proof.
  unfold cnt. split.
  - intros Hpos. destruct (filter (is_ia i a) ms) as [|[pid m] r] eqn:Ef; [cbn in Hpos; lia|].
    assert (Hin : In (pid, m) (filter (is_ia i a) ms)) by (rewrite Ef; now left).
    apply filter_In in Hin as [Hin Hf]. unfold is_ia in Hf. cbn [fst snd] in Hf. apply andb_true_iff in Hf as [H1 H2].
    apply N.eqb_eq in H1. subst pid. destruct m as [|a' len]; [discriminate|]. cbn in H2. apply N.eqb_eq in H2. subst. eauto.
  - intros [len Hin]. assert (Hf : In (i, SBound a len) (filter (is_ia i a) ms)).
    { apply filter_In. split; auto. unfold is_ia. cbn. now rewrite !N.eqb_refl. }
    destruct (filter (is_ia i a) ms); [destruct Hf|cbn; lia].
Qed.

(** ** the empty pattern: reported exactly once per host *)
Definition cntp (i : N) (ms : list (N * spm)) : nat := length (filter (fun pm => N.eqb (fst pm) i) ms).

Lemma cntp_app i l1 l2 : cntp i (l1 ++ l2) = (cntp i l1 + cntp i l2)%nat.
Proof. unfold cntp. now rewrite filter_app, app_length. Qed.

Lemma cntp_map i pid (bs : list spm) : cntp i (map (fun b => (pid, b)) bs) = if N.eqb pid i then length bs else 0%nat.
Proof.
  unfold cntp. induction bs as [|b bs IH]; cbn [map filter fst]; [destruct (N.eqb pid i); reflexivity|].
  destruct (N.eqb pid i) eqn:E; cbn [length]; [now rewrite IH|exact IH].
Qed.

Lemma cntp_pos_in i ms : (0 < cntp i ms)%nat <-> exists m, In (i, m) ms.
Proof.
  unfold cntp. split.
  - intros Hpos. destruct (filter (fun pm => N.eqb (fst pm) i) ms) as [|[pid m] r] eqn:Ef; [cbn in Hpos; lia|].
    assert (Hin : In (pid, m) (filter (fun pm => N.eqb (fst pm) i) ms)) by (rewrite Ef; now left).
    apply filter_In in Hin as [Hin Hf]. cbn in Hf. apply N.eqb_eq in Hf. subst. eauto.
  - intros [m Hin]. assert (Hf : In (i, m) (filter (fun pm => N.eqb (fst pm) i) ms)).
    { apply filter_In. split; auto. cbn. apply N.eqb_refl. }
    destruct (filter (fun pm => N.eqb (fst pm) i) ms); [destruct Hf|cbn; lia].
Qed.

(** the entries for pattern [i] emitted at one item come from the (unique) match entry of [i] *)
Lemma s_emit_cntp h (st : astate N cpredicate) m e i :
  NoDup (map fst (a_matches st)) -> emissions string_dom h st m = Ok e ->
  ((0 < cntp i e)%nat -> In i (map fst (a_matches st)))
  /\ (In (i, []) (a_matches st) -> cntp i e = 1%nat /\ In (i, SUnbound) e).
Proof.
  intros Hnd. unfold emissions. revert e. induction (a_matches st) as [|[pid keys] l IH]; intros e Em.
  - cbn in Em. inversion Em; subst. cbn. split; [intros C; lia|intros []].
  - cbn [rflatM] in Em.
    match type of Em with rbind ?x _ = _ => destruct x as [e1| |] eqn:E1 end; cbn [rbind] in Em; try discriminate.
    destruct (rflatM _ l) as [e'| |] eqn:E'; cbn [rbind] in Em; try discriminate. inversion Em; subst e.
    inversion Hnd as [|? ? Hni Hnd']; subst. destruct (IH Hnd' e' eq_refl) as [IH1 IH2].
    set (new_keys := filter (fun k => match mget string_dom m k with None => true | Some _ => false end) keys) in E1.
    destruct (match new_keys with [] => Ok [m] | _ => bind_all string_dom h m new_keys false end) as [bs| |] eqn:B;
      cbn [rbind] in E1; try discriminate.
    destruct (rmapM (mretain string_dom keys) bs) as [bs'| |] eqn:R; cbn [rbind] in E1; try discriminate.
    inversion E1; subst e1. rewrite cntp_app, cntp_map. split.
    + intros Hpos. destruct (N.eqb_spec pid i) as [->|Hpi]; [now left|]. right. apply IH1. cbn [plus] in Hpos. exact Hpos.
    + intros [Eq|Hin].
      * inversion Eq; subst pid keys. rewrite N.eqb_refl.
        assert (cntp i e' = 0%nat) as ->.
        { destruct (cntp i e') eqn:Ec; auto. exfalso. apply Hni. apply IH1. lia. }
        unfold new_keys in B. cbn [filter] in B. inversion B; subst bs. cbn [rmapM] in R.
        change (mretain string_dom [] m) with (retain_rounds_default SUnbound sget sbind [] m) in R.
        rewrite s_retain_nil in R. cbn [rbind rmapM] in R. inversion R; subst bs'. cbn [length map]. split; [lia|].
        apply in_or_app. left. now left.
      * destruct (N.eqb_spec pid i) as [->|Hpi].
        { exfalso. apply Hni. apply in_map_iff. exists (i, []). auto. }
        cbn [plus]. destruct (IH2 Hin) as [H1 H2]. split; auto. apply in_or_app. now right.
Qed.

Section CountGen.
  Variable A : automaton N cpredicate.
  Variable h : shost.
  Variable f : N * spm -> bool.
  Definition cntf (ms : list (N * spm)) : nat := length (filter f ms).
  Lemma cntf_app l1 l2 : cntf (l1 ++ l2) = (cntf l1 + cntf l2)%nat.
  Proof. unfold cntf. now rewrite filter_app, app_length. Qed.

  Definition contributes_f (x : N * spm) : Prop := exists e, emit_of string_dom A h x e /\ (0 < cntf e)%nat.

  Lemma emits_none_f T ms : emits_all string_dom A h T ms -> (forall x, In x T -> ~ contributes_f x) -> cntf ms = 0%nat.
  Proof.
    induction 1 as [|x e T ms He HT IH]; intros Hn; [reflexivity|]. rewrite cntf_app.
    rewrite IH by (intros y Hy; apply Hn; now right).
    destruct (cntf e) eqn:Ec; auto. exfalso. apply (Hn x (or_introl eq_refl)). exists e. split; auto. lia.
  Qed.

  Lemma emits_at_most_one_f T ms :
    emits_all string_dom A h T ms -> NoDup (map (kview string_dom A) T) ->
    (forall x e, In x T -> emit_of string_dom A h x e -> (cntf e <= 1)%nat) ->
    (forall x y, In x T -> In y T -> contributes_f x -> contributes_f y -> kview string_dom A x = kview string_dom A y) ->
    (cntf ms <= 1)%nat.
  Proof.
    induction 1 as [|x e T ms He HT IH]; intros Hnd H1 Hpair; [cbn; lia|]. rewrite cntf_app.
    cbn [map] in Hnd. inversion Hnd as [|? ? Hni Hnd']; subst.
    destruct (cntf e) eqn:Ec.
    - cbn [plus]. apply IH; auto.
      + intros y e' Hy. apply H1. now right.
      + intros y z Hy Hz. apply Hpair; now right.
    - assert (Hx : contributes_f x) by (exists e; split; auto; lia).
      rewrite (emits_none_f T ms HT).
      + specialize (H1 x e (or_introl eq_refl) He). lia.
      + intros y Hy Cy. apply Hni. rewrite (Hpair x y (or_introl eq_refl) (or_intror Hy) Hx Cy). now apply in_map.
  Qed.
End CountGen.

Section EmptyPattern.
  Variable A : automaton N cpredicate.
  Variable ids : list N.
  Hypothesis HWF : WF string_dom A ids.
  Variable L : slabelling (K:=N) (P:=cpredicate).
  Hypothesis HL : slab_ok (char_ceqb N.eqb) (char_refutes N.eqb) A L = true.
  Hypothesis HU : cert_unamb (char_ceqb N.eqb) (char_refutes N.eqb) A L = true.
  Hypothesis HESC : empty_scope_closed A = true.
  Hypothesis HER : empty_keys_at_root A = true.
  Variable cs : list (list (constraint N cpredicate)).
  Variable present : list bool.
  Hypothesis HEP : empty_pattern_keys A cs = true.
  Hypothesis HCC : cert_complete (char_entails N.eqb) (char_refutes N.eqb) A cs present = true.
  Variable h : shost.
  Variable i : nat.
  Hypothesis Hi : nth_error cs i = Some [].
  Hypothesis Hp : nth_error present i = Some true.

  (** the root records the empty pattern, with an empty key list *)
  Lemma root_accepts_empty : exists st0, get_state A (au_root A) = Ok st0 /\ In (N.of_nat i, []) (a_matches st0).
  Proof.
    assert (Hacc : aaccepts (sval h 0) A (N.of_nat i)).
    { apply (cert_complete_sound (char_entails N.eqb) (char_refutes N.eqb) (sval h 0) (s_entails_sound h 0) (s_refutes_sound h 0)
               A cs present i [] HCC Hi Hp). intros d []. }
    destruct Hacc as [t [st [Hr [G Hin]]]]. apply in_map_iff in Hin as [[p keys] [Ep Hpk]]. cbn in Ep. subst p.
    destruct (get_state_in _ _ _ G) as [Hst Hid].
    unfold empty_pattern_keys in HEP. rewrite forallb_forall in HEP. specialize (HEP st Hst).
    rewrite forallb_forall in HEP. specialize (HEP _ Hpk). cbn [fst snd] in HEP. rewrite Nnat.Nat2N.id, Hi in HEP.
    destruct keys as [|k ks]; [|discriminate].
    unfold empty_keys_at_root in HER. rewrite forallb_forall in HER. specialize (HER st Hst).
    apply orb_true_iff in HER as [Er|Ek].
    - apply N.eqb_eq in Er. rewrite Hid in Er. subst t. eauto.
    - rewrite forallb_forall in Ek. specialize (Ek _ Hpk). discriminate.
  Qed.

  Lemma root_item_unbound x : IInv A L h x -> fst x = au_root A -> snd x = SUnbound.
  Proof.
    destruct x as [t m]. intros [[[_ E]|[st_s [e [Hs [He [Ht _]]]]]] _] Er; cbn [fst snd] in *; [exact E|].
    exfalso. rewrite Er in Ht. exact (no_edge_into_root A ids HWF st_s e Hs He Ht).
  Qed.

  Theorem s_empty_once fuel ms : run string_dom fuel A h = Ok ms -> cntp (N.of_nat i) ms = 1%nat.
  Proof.
    intros R. destruct root_accepts_empty as [st0 [G0 Hroot]].
    destruct (get_state_in _ _ _ G0) as [Hst0 _].
    destruct (run_trace string_dom string_dom_eq A h fuel ms R) as [T [T1 [_ [T3 [T4 [T5 [Tnd Tem]]]]]]].
    assert (HI : forall x, In x T -> IInv A L h x).
    { intros x Hx. apply (creach_IInv A ids HWF L HL h HESC). now apply (trace_creach string_dom A h T T5). }
    pose proof (cert_unamb_nodup (char_ceqb N.eqb) (char_refutes N.eqb) A L) as Hnodup.
    (* at least once: the root item emits it *)
    assert (Hge : (1 <= cntp (N.of_nat i) ms)%nat).
    { destruct T1 as [y0 [Hy0 [Ef _]]]. cbn [fst] in Ef.
      destruct (T4 y0 Hy0) as [_ [e [_ [st [G Em]]]]]. rewrite Ef, G0 in G. inversion G; subst st.
      destruct (s_emit_cntp h st0 (snd y0) e (N.of_nat i) (Hnodup st0 HU Hst0) Em) as [_ H2].
      destruct (H2 Hroot) as [_ Hin].
      assert (In (N.of_nat i, SUnbound) ms) by (eapply T3; eauto; exists st0; rewrite Ef; auto).
      apply cntp_pos_in. eauto. }
    (* at most once *)
    assert (Hle : (cntp (N.of_nat i) ms <= 1)%nat).
    { apply (emits_at_most_one_f A h (fun pm => N.eqb (fst pm) (N.of_nat i)) T ms Tem Tnd).
      - intros [t m] e Hx [st [G Em]]. cbn [fst snd] in *. destruct (get_state_in _ _ _ G) as [Hst _].
        destruct (s_emit_cntp h st m e (N.of_nat i) (Hnodup st HU Hst) Em) as [H1 H2].
        change (cntf (fun pm => N.eqb (fst pm) (N.of_nat i)) e) with (cntp (N.of_nat i) e).
        destruct (cntp (N.of_nat i) e) eqn:Ec; [lia|].
        (* the state accepts i, so it is the root *)
        assert (Hacc : In (N.of_nat i) (map fst (a_matches st))) by (apply H1; lia).
        pose proof (HI _ Hx) as Ix. destruct Ix as [_ Im]. cbn [fst snd] in Im.
        assert (Er : t = au_root A).
        { destruct m as [|a len].
          - apply (cert_unamb_sound (char_ceqb N.eqb) (char_ceqb_spec N.eqb N.eqb_eq) (char_refutes N.eqb) (sval h 0)
                     (s_refutes_sound h 0) A L HL t (au_root A) st st0 (N.of_nat i) HU (Im 0) (ar_root _ _) G G0 Hacc).
            apply in_map_iff. exists (N.of_nat i, []). auto.
          - destruct Im as [_ [_ Ir]].
            apply (cert_unamb_sound (char_ceqb N.eqb) (char_ceqb_spec N.eqb N.eqb_eq) (char_refutes N.eqb) (sval h a)
                     (s_refutes_sound h a) A L HL t (au_root A) st st0 (N.of_nat i) HU Ir (ar_root _ _) G G0 Hacc).
            apply in_map_iff. exists (N.of_nat i, []). auto. }
        subst t. rewrite G0 in G. inversion G; subst st.
        destruct (H2 Hroot) as [E1 _]. lia.
      - intros [t1 m1] [t2 m2] Hx Hy [e1 [[st1 [G1 Em1]] Hp1]] [e2 [[st2 [G2 Em2]] Hp2]]. cbn [fst snd] in *.
        destruct (get_state_in _ _ _ G1) as [Hst1 _]. destruct (get_state_in _ _ _ G2) as [Hst2 _].
        destruct (s_emit_cntp h st1 m1 e1 (N.of_nat i) (Hnodup st1 HU Hst1) Em1) as [A1 _].
        destruct (s_emit_cntp h st2 m2 e2 (N.of_nat i) (Hnodup st2 HU Hst2) Em2) as [A2 _].
        pose proof (HI _ Hx) as I1. pose proof (HI _ Hy) as I2.
        assert (Hroot_of : forall t m st, IInv A L h (t, m) -> get_state A t = Ok st -> In (N.of_nat i) (map fst (a_matches st)) -> t = au_root A).
        { intros t m st [_ Im] G Hacc. cbn [fst snd] in Im. destruct m as [|a len].
          - apply (cert_unamb_sound (char_ceqb N.eqb) (char_ceqb_spec N.eqb N.eqb_eq) (char_refutes N.eqb) (sval h 0)
                     (s_refutes_sound h 0) A L HL t (au_root A) st st0 (N.of_nat i) HU (Im 0) (ar_root _ _) G G0 Hacc).
            apply in_map_iff. exists (N.of_nat i, []). auto.
          - destruct Im as [_ [_ Ir]].
            apply (cert_unamb_sound (char_ceqb N.eqb) (char_ceqb_spec N.eqb N.eqb_eq) (char_refutes N.eqb) (sval h a)
                     (s_refutes_sound h a) A L HL t (au_root A) st st0 (N.of_nat i) HU Ir (ar_root _ _) G G0 Hacc).
            apply in_map_iff. exists (N.of_nat i, []). auto. }
        pose proof (Hroot_of t1 m1 st1 I1 G1 (A1 Hp1)) as E1. pose proof (Hroot_of t2 m2 st2 I2 G2 (A2 Hp2)) as E2. subst t1 t2.
        pose proof (root_item_unbound _ I1 eq_refl) as U1. pose proof (root_item_unbound _ I2 eq_refl) as U2.
        cbn [snd] in U1, U2. subst. reflexivity. }
    lia.
  Qed.
End EmptyPattern.
