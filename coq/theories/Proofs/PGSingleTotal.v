(** C08, port graphs, the baselines: SinglePatternMatcher (the model of
    get_all_bindings), hence match_exists and NaiveManyMatcher, terminates without
    reaching a panic site on every constraint list whose constraints have the
    arity of their predicate.  The binding maps stay inside the finite set of
    requested keys, which bounds their size and with it the number of root
    candidates. *)
From PM Require Import Model.Prelude Model.Domain Model.Constraint Model.BindAll Model.Scheme Model.Matchers Model.BindMaps
  Model.DomString Model.DomPGKeys Model.DomPG Spec.TopoSpec
  Proofs.SchemeProofs Proofs.SchemeTotal Proofs.BindAllProofs Proofs.BindMapProofs Proofs.PGTreeProofs Proofs.PGLawful Proofs.PGEmbed
  Proofs.RunTotal Proofs.PGTotal Proofs.PGTerminates Proofs.SingleTotal Proofs.SingleTotalDomains.
Local Open Scope nat_scope.

(** keys of the results of bind_all: those of the start map and the listed ones *)
Lemma pg_bind_key_keys h inc k m r : bind_key pg_dom h inc k m = Ok r ->
  forall m', In m' r -> incl (map fst m') (k :: map fst m).
Proof.
  unfold bind_key. change (mget pg_dom m k) with (pgget m k).
  destruct (pgget m k) as [v0|] eqn:G.
  - intros E. inversion E; subst. intros m' [<-|[]] x Hx. now right.
  - cbn [opts pg_dom]. destruct (pg_opts h k m) as [vs| |]; cbn [rbind]; try discriminate.
    destruct vs as [|v vs'] eqn:Evs.
    + destruct inc; intros E; inversion E; subst; [intros m' [<-|[]] x Hx; now right|intros m' []].
    + rewrite <- Evs. intros E. assert (E' : r = flat_map (fun v0 => match mbind pg_dom m k v0 with Some m'0 => [m'0] | None => [] end) vs).
      { rewrite Evs in *. inversion E. reflexivity. }
      subst r. intros m' Hm'. apply in_flat_map in Hm' as [w [_ Hm']].
      change (mbind pg_dom m k w) with (abind pgkey_eqb N.eqb m k w) in Hm'.
      destruct (abind pgkey_eqb N.eqb m k w) as [m2|] eqn:B; [|destruct Hm']. destruct Hm' as [<-|[]].
      rewrite (abind_absent_shape m k w m2 G B). rewrite map_app. cbn [map fst].
      intros x Hx. apply in_app_or in Hx as [Hx|[<-|[]]]; [now right|now left].
Qed.

Lemma pg_bind_list_keys h inc : forall ks ms l, bind_all_list pg_dom h inc ks ms = Ok l ->
  forall U, incl ks U -> (forall m, In m ms -> incl (map fst m) U) -> forall m', In m' l -> incl (map fst m') U.
Proof.
  induction ks as [|k ks IH]; intros ms l B U Hks Hms.
  - cbn [bind_all_list] in B. inversion B; subst. exact Hms.
  - cbn [bind_all_list] in B. destruct (rflatM (bind_key pg_dom h inc k) ms) as [ms'| |] eqn:E; cbn [rbind] in B; try discriminate.
    apply (IH ms' l B U (fun x Hx => Hks x (or_intror Hx))).
    intros m1 Hm1. clear B IH.
    revert ms' E m1 Hm1. induction ms as [|m0 ms IHm]; intros ms' E m1 Hm1; cbn [rflatM] in E.
    + inversion E; subst. destruct Hm1.
    + destruct (bind_key pg_dom h inc k m0) as [r| |] eqn:Bk; cbn [rbind] in E; try discriminate.
      destruct (rflatM (bind_key pg_dom h inc k) ms) as [rest| |] eqn:Er; cbn [rbind] in E; try discriminate.
      inversion E; subst ms'. apply in_app_or in Hm1 as [Hm1|Hm1].
      * intros x Hx. apply (pg_bind_key_keys h inc k m0 r Bk m1 Hm1) in Hx as [<-|Hx]; [apply Hks; now left|].
        apply (Hms m0 (or_introl eq_refl)). exact Hx.
      * apply (IHm (fun m Hm => Hms m (or_intror Hm)) rest eq_refl m1 Hm1).
Qed.

Definition Pu (U : list pgkey) (m : pgmap) : Prop := aroots m /\ knd m /\ incl (map fst m) U.

Lemma Pu_length U m : Pu U m -> length m <= length U.
Proof. intros [_ [Hk Hi]]. rewrite <- (map_length fst). now apply NoDup_incl_length. Qed.

Lemma pg_bind_all_single h U m ks inc : Pu U m -> incl ks U -> NoDup ks ->
  exists l, bind_all pg_dom h m ks inc = Ok l
            /\ length l <= Nat.pow (optbound h (length U + length U)) (length U) /\ Forall (Pu U) l.
Proof.
  intros HP Hks Hnd. pose proof (Pu_length U m HP) as Hl. destruct HP as [Ha [Hk Hi]].
  assert (Hlk : length ks <= length U) by now apply NoDup_incl_length.
  unfold bind_all.
  destruct (pg_bind_list_bound h (length U + length U) inc ks [m] (length U)) as [l [El [Fl Ll]]].
  { constructor; [|constructor]. repeat split; auto. }
  { lia. }
  exists l. split; [exact El|]. split.
  - cbn [length] in Ll. rewrite Nat.mul_1_l in Ll. etransitivity; [exact Ll|].
    apply Nat.pow_le_mono_r; [unfold optbound; lia|exact Hlk].
  - apply Forall_forall. intros m' Hm'. rewrite Forall_forall in Fl. destruct (Fl m' Hm') as [Ha' [Hk' _]].
    split; [exact Ha'|]. split; [exact Hk'|].
    apply (pg_bind_list_keys h inc ks [m] l El U Hks); [|exact Hm'].
    intros m0 [<-|[]]. exact Hi.
Qed.

Lemma closure_list_mono {K} (req : K -> list K) known (k1 k2 : list K) x :
  incl k1 k2 -> closure_list req known k1 x -> closure_list req known k2 x.
Proof. intros Hi [key [Hk Hc]]. exists key. split; auto. Qed.

Theorem pg_single_total_cs (cs : list (constraint pgkey pgpred)) h :
  (forall c, In c cs -> length (cargs c) = pg_arity (cpred c)) ->
  exists fuel0, forall fuel, fuel0 <= fuel -> exists r, single pg_dom fuel cs h = Ok r.
Proof.
  intros Har. destruct pg_req_acyclic as [rank Hr].
  (* the finite set of requested keys *)
  destruct (all_missing_terminates pgkey_eqb pg_req (ex_intro _ rank Hr) ([] ++ flat_map cargs cs) []) as [f0 Hf0].
  destruct (Hf0 f0 (le_n _)) as [U EU].
  destruct (all_missing_ok pgkey_eqb pg_req pgkey_eqb_eq f0 _ [] U (ex_intro _ rank Hr) EU) as [_ [HinU _]].
  unfold single.
  apply (single_total_gen pg_dom h rank Hr cs [] (Pu U)) with
    (Bc := Nat.pow (optbound h (length U + length U)) (length U)) (okks := fun ks => incl ks U /\ NoDup ks).
  - split; [intros r p l v []|]. split; [constructor|intros x []].
  - (* the missing bindings of one constraint's arguments *)
    intros c fuel keys Hc A. unfold amb in A.
    destruct (all_missing_ok pgkey_eqb pg_req pgkey_eqb_eq fuel (cargs c) [] keys (ex_intro _ rank Hr) A) as [Hnd [Hin _]].
    split; [|exact Hnd]. intros x Hx. apply HinU. apply Hin in Hx.
    eapply closure_list_mono; [|exact Hx]. intros k Hk. cbn [app]. apply in_flat_map. exists c. split; assumption.
  - (* sub-lists of the requested keys *)
    intros fuel reqk f Rq. unfold requested, amb in Rq.
    destruct (all_missing_ok pgkey_eqb pg_req pgkey_eqb_eq fuel _ [] reqk (ex_intro _ rank Hr) Rq) as [Hnd [Hin _]].
    split; [|now apply NoDup_filter]. intros x Hx. apply filter_In in Hx as [Hx _]. apply HinU. now apply Hin.
  - intros m ks inc Hm [Hks Hnd]. now apply pg_bind_all_single.
  - intros c m Hc _. apply pg_sat_total. now apply Har.
  - intros fuel reqk m _ _. eexists. reflexivity.
Qed.

Theorem pg_naive_total_css (css : list (list (constraint pgkey pgpred))) h :
  (forall cs c, In cs css -> In c cs -> length (cargs c) = pg_arity (cpred c)) ->
  exists fuel0, forall fuel, fuel0 <= fuel -> exists ms, naive pg_dom fuel css h = Ok ms.
Proof.
  intros Har. apply naive_total. intros cs Hcs. apply pg_single_total_cs. intros c Hc. eapply Har; eauto.
Qed.

(** ** the constraints generated for a pattern have the arity of their predicate *)
From PM Require Import Model.DomPGPattern.

Definition arity_okc (c : pgconstraint) : Prop := length (cargs c) = pg_arity (cpred c).

Lemma line_constraints_arity : forall line i ri ro nk cs nk',
  line_constraints line i ri ro nk = Ok (cs, nk') -> forall c, In c cs -> arity_okc c.
Proof.
  induction line as [|[lport rport] rest IH]; intros i ri ro nk cs nk' LC c Hc; cbn [line_constraints] in LC.
  - inversion LC; subst. destruct Hc.
  - destruct (nk_get nk (fst lport)) as [lk|]; [|discriminate].
    destruct (nk_get nk (fst rport)) as [rk|].
    + destruct (line_constraints rest (i + 1) ri ro nk) as [[cs0 nk0]| |] eqn:E; cbn [rbind fst snd] in LC; try discriminate.
      inversion LC; subst cs nk'. cbn [app] in Hc. destruct Hc as [<-|Hc]; [reflexivity|eauto].
    + destruct (line_constraints rest (i + 1) ri ro (nk ++ [(fst rport, AlongPath ri ro (i + 1))])) as [[cs0 nk0]| |] eqn:E;
        cbn [rbind fst snd] in LC; try discriminate.
      inversion LC; subst cs nk'. cbn [app] in Hc. destruct Hc as [<-|[<-|Hc]]; [| reflexivity | eauto].
      unfold arity_okc, mk. cbn [cargs cpred pg_arity length]. rewrite map_length, Nnat.Nat2N.id. reflexivity.
Qed.

Lemma lines_constraints_arity : forall lines nk nr cs nk',
  lines_constraints lines nk nr = Ok (cs, nk') -> forall c, In c cs -> arity_okc c.
Proof.
  induction lines as [|line rest IH]; intros nk nr cs nk' LC c Hc; cbn [lines_constraints] in LC.
  - inversion LC; subst. destruct Hc.
  - destruct line as [|first line']; [eauto|].
    destruct (ni_get nr (fst (fst first))) as [ix|].
    + destruct (line_constraints (first :: line') 0 ix (snd (fst first)) nk) as [[cs1 nk1]| |] eqn:E1; cbn [rbind fst snd] in LC; try discriminate.
      destruct (lines_constraints rest nk1 nr) as [[cs2 nk2]| |] eqn:E2; cbn [rbind fst snd] in LC; try discriminate.
      inversion LC; subst cs nk'. apply in_app_or in Hc as [Hc|Hc]; [eapply line_constraints_arity; eauto|eauto].
    + destruct (line_constraints (first :: line') 0 (N.of_nat (length nr)) (snd (fst first)) nk) as [[cs1 nk1]| |] eqn:E1; cbn [rbind fst snd] in LC; try discriminate.
      destruct (lines_constraints rest nk1 (nr ++ [(fst (fst first), N.of_nat (length nr))])) as [[cs2 nk2]| |] eqn:E2; cbn [rbind fst snd] in LC; try discriminate.
      inversion LC; subst cs nk'. apply in_app_or in Hc as [Hc|Hc]; [eapply line_constraints_arity; eauto|eauto].
Qed.

Lemma pg_cvec_arity g root cs : pg_constraint_vec g root = Ok cs -> forall c, In c cs -> arity_okc c.
Proof.
  unfold pg_constraint_vec, pg_cvec_full. destruct (pg_links g) as [|l0 ls].
  - cbn [rbind fst]. intros E. inversion E; subst. intros c [<-|[]]. reflexivity.
  - destruct (lines_constraints (line_partition g root) [(root, PathRoot 0)] [(root, 0%N)]) as [[cs0 nk0]| |] eqn:E0; cbn [rbind fst snd]; try discriminate.
    destruct cs0 as [|c0 cs0'] eqn:Ecs; cbn [rbind fst]; intros E; inversion E; subst cs.
    + intros c [<-|[]]. reflexivity.
    + rewrite <- Ecs in *. intros c Hc. eapply lines_constraints_arity; eauto.
Qed.

(** every pattern whose conversion succeeds *)
Theorem pg_single_total g root cs h : pg_constraint_vec g root = Ok cs ->
  exists fuel0, forall fuel, fuel0 <= fuel -> exists r, single pg_dom fuel cs h = Ok r.
Proof. intros E. apply pg_single_total_cs. intros c Hc. exact (pg_cvec_arity g root cs E c Hc). Qed.
