(** C10: the character decomposition (strings and matrices) is faithful under the
    deterministic reading of its root, for every valuation that reads the
    constraints off characters (key k denotes the character [char_of k]): the
    children of the root test one cell for pairwise different characters. *)
From PM Require Import Model.Prelude Model.Domain Model.CTree Model.CTreeChar Model.DomString Model.DomMatrix
  Spec.TreeSem Spec.TreeDet Proofs.TreeProofs Proofs.TreeDomains Proofs.CellsProofs Proofs.TreeRootExclusive Proofs.PGTreeDet.

Section CharTreeDet.
  Context {K : Type} (kcmp : K -> K -> comparison) (char_of : K -> option N).
  Notation C := (constraint K cpredicate).
  Hypothesis kcmp_eq : forall a b, kcmp a b = Eq -> a = b.
  Hypothesis kcmp_refl : forall a, kcmp a a = Eq.
  Notation v := (cvalb char_of).

  Theorem char_tree_det_faithful cs T :
    cs <> [] -> char_tree kcmp cs = Ok T -> det_faithful v T cs.
  Proof.
    intros Hne Ct. destruct (char_tree_ok kcmp v kcmp_eq kcmp_refl cs T Hne Ct) as [F _].
    apply det_faithful_of_exclusive; [|exact F].
    unfold char_tree in Ct. destruct cs as [|c1 cs']; [contradiction|].
    set (cs := c1 :: cs') in *.
    destruct (sort_with_indices (cc_cmp kcmp) cs) as [|[first fi] rest] eqn:Es.
    { inversion Ct; subst T. intros root l1 a1 k1 l2 a2 k2 l3 Hr E. cbn in Hr. inversion Hr; subst root. cbn in E. destruct l1; discriminate. }
    destruct (cpred first) eqn:Ep.
    - (* one child *)
      destruct (with_children (cc_eqb kcmp) [(first, [fi])]) as [t| |] eqn:Wc; cbn in Ct; try discriminate.
      inversion Ct; subst T.
      unfold with_children in Wc.
      apply (with_children_from_rinv (cc_eqb kcmp) (fun c => c = first) _ _ _ (rinv_init _ _)) in Wc;
        [|intros c is [E|[]]; now inversion E].
      destruct Wc as [root [Hr [HS Hp]]].
      intros root' l1 a1 k1 l2 a2 k2 l3 Hr' E _ _. cbn [ct_nodes set_make_det] in Hr'. rewrite Hr in Hr'. inversion Hr'; subst root'.
      assert (E1 : a1 = first) by (apply (HS a1 k1); rewrite E; apply in_or_app; right; now left).
      assert (E2 : a2 = first) by (apply (HS a2 k2); rewrite E; apply in_or_app; right; right; apply in_or_app; right; now left).
      specialize (Hp _ _ _ _ _ _ _ E). subst a1 a2.
      assert (cc_eqb kcmp first first = true).
      { unfold cc_eqb. apply andb_true_iff. split.
        - destruct (cpred first); cbn; [reflexivity|apply N.eqb_refl].
        - induction (cargs first) as [|x xs IH]; cbn; [reflexivity|]. unfold keqb_of at 1. now rewrite kcmp_refl. }
      congruence.
    - (* constants on one cell *)
      destruct (cargs first) as [|x [|x2 xs]] eqn:Ea; try discriminate.
      set (kept := filter _ ((first, fi) :: rest)) in Ct.
      destruct (with_children (cc_eqb kcmp) (map (fun ci => (fst ci, [snd ci])) kept)) as [t| |] eqn:Wc;
        cbn in Ct; try discriminate.
      inversion Ct; subst T.
      unfold with_children in Wc.
      apply (with_children_from_rinv (cc_eqb kcmp) (fun c => exists a, cpred c = CConst a /\ cargs c = [x]) _ _ _ (rinv_init _ _)) in Wc.
      + destruct Wc as [root [Hr [HS Hp]]].
        intros root' l1 a1 k1 l2 a2 k2 l3 Hr' E V1 V2. cbn [ct_nodes set_make_det] in Hr'. rewrite Hr in Hr'. inversion Hr'; subst root'.
        destruct (HS a1 k1) as [ch1 [P1 A1]]; [rewrite E; apply in_or_app; right; now left|].
        destruct (HS a2 k2) as [ch2 [P2 A2]]; [rewrite E; apply in_or_app; right; right; apply in_or_app; right; now left|].
        specialize (Hp _ _ _ _ _ _ _ E).
        unfold cvalb in V1, V2. rewrite P1, A1 in V1. rewrite P2, A2 in V2.
        destruct (char_of x) as [ch|]; [|discriminate]. apply N.eqb_eq in V1, V2. subst ch1 ch2.
        unfold cc_eqb in Hp. rewrite P1, P2, A1, A2 in Hp. cbn in Hp. unfold keqb_of in Hp. rewrite kcmp_refl, N.eqb_refl in Hp. discriminate.
      + intros cx isx Hin. apply in_map_iff in Hin as [[c0 i0] [E Hin]]. inversion E; subst cx isx.
        unfold kept in Hin. apply filter_In in Hin as [_ Hf]. cbn [fst] in Hf.
        destruct (cpred c0) as [|a] eqn:Pc; [discriminate|]. destruct (cargs c0) as [|y [|? ?]] eqn:Ac; try discriminate.
        unfold keqb_of in Hf. destruct (kcmp y x) eqn:Ek; try discriminate. apply kcmp_eq in Ek. subst y. eauto.
  Qed.
End CharTreeDet.
