(** Strings: the single-pattern matcher reports every occurrence (C05,
    completeness half), hence exactly the occurrences. *)
From PM Require Import Model.Prelude Model.Domain Model.Constraint Model.BindAll Model.Scheme Model.Matchers
  Model.BindMaps Model.DomString Spec.Extends Spec.TopoSpec Spec.Occ Cert.CharCert
  Proofs.SchemeProofs Proofs.BindAllProofs Proofs.BindMapProofs Proofs.RunSound Proofs.LawfulDomains
  Proofs.OccString Proofs.OccProofs Proofs.SingleSound Proofs.SingleComplete Proofs.SingleDomains Proofs.NaiveProofs Proofs.StringRun.
Local Open Scope N_scope.
Arguments N.max : simpl never.
Arguments N.add : simpl never.
Arguments N.ltb : simpl never.
Arguments N.eqb : simpl never.

Lemma s_closure key x : closure s_req (fun x => In x []) key x -> x = key \/ x = 0.
Proof.
  induction 1 as [|k r Hc IH Hr _]; [now left|]. right.
  unfold s_req in Hr. destruct (N.eqb k 0); [destruct Hr|]. destruct Hr as [<-|[]]. reflexivity.
Qed.

Lemma s_amb_spec fuel args keys :
  amb string_dom fuel args = Ok keys ->
  (forall k, In k keys -> In k args \/ k = 0) /\ incl args keys /\ (forall x l, keys = x :: l -> x = 0).
Proof.
  intros A. unfold amb in A. change (keqb string_dom) with N.eqb in A. change (req string_dom) with s_req in A.
  destruct (all_missing_ok N.eqb s_req N.eqb_eq fuel args [] keys s_req_acyclic A) as [_ [Hin [Hpf _]]].
  split; [|split].
  - intros k Hk. apply Hin in Hk as [key [Hkey Hc]]. destruct (s_closure _ _ Hc) as [E|E]; subst; auto.
  - intros k Hk. apply Hin. exists k. split; auto. constructor. tauto.
  - intros x l ->. destruct (N.eq_dec x 0) as [|Hne]; auto.
    specialize (Hpf [] x l eq_refl 0). cbn in Hpf. exfalso. apply Hpf; [|tauto].
    unfold s_req. destruct (N.eqb_spec x 0); [contradiction|now left].
Qed.

Section StringSingle.
  Variable h : shost.
  Variable a : N.
  Hypothesis Ha : a < blen h.
  Variable reqk : list N.
  Hypothesis Hgood : s_goodb reqk = true.
  Hypothesis Hne : reqk <> [].
  Hypothesis Hoff : forall k, In k reqk -> a + k < blen h.
  Definition Qa (m : spm) : Prop := exists L, m = SBound a L.
  Notation deriv := (derivable string_dom h reqk Qa).

  Lemma sget_bound_lt s L k : k < L -> sget (SBound s L) k = Some (s + k).
  Proof. intros Hk. cbn. destruct (N.ltb_spec k L); [reflexivity|lia]. Qed.

  Lemma s_single_step c rest m :
    anch a m -> sval h a c = true -> cargs c <> [] ->
    (forall L, 0 < L -> deriv rest (SBound a L)) -> deriv (c :: rest) m.
  Proof.
    intros Hm Hv Hargs Hrest fuel keys cands ok Ak B Fs.
    destruct (s_amb_spec _ _ _ Ak) as [Hk1 [Hk2 Hk3]].
    assert (Hoffk : forall k, In k keys -> a + k < blen h).
    { intros k Hk. destruct (Hk1 k Hk) as [Hin| ->]; [|lia].
      pose proof (sval_args_exist h a c k Hv Hin). pose proof (blen_ge_length h). lia. }
    assert (Hc : exists L, 0 < L /\ In (SBound a L) cands /\ forall k, In k keys -> k < L).
    { apply bind_all_eq_spec in B. destruct Hm as [->|[len [Hl ->]]].
      - destruct keys as [|x l] eqn:Ek.
        { exfalso. destruct (cargs c) as [|k0 ?]; [contradiction|]. apply (Hk2 k0). now left. }
        pose proof (Hk3 x l eq_refl) as ->.
        exists (s_extend h a l 1). pose proof (s_extend_ge h a l 1). split; [lia|]. split.
        + apply (extend_rel string_dom h false (0 :: l) SUnbound cands _ B).
          apply ext_rel_unbound; auto. right. intros k Hk. apply Hoffk. now right.
        + intros k [<-|Hk]; [lia|]. apply s_extend_covers; auto. apply Hoffk. now right.
      - exists (s_extend h a keys len). pose proof (s_extend_ge h a keys len). split; [lia|]. split.
        + apply (extend_rel string_dom h false keys (SBound a len) cands _ B).
          apply ext_rel_bound; auto.
        + intros k Hk. apply s_extend_covers; auto. }
    destruct Hc as [L [HL [Hin Hcov]]].
    exists (SBound a L). split; [|now apply Hrest].
    eapply filter_satb_fwd; [exact Fs|exact Hin|].
    apply (s_sat_of_sval h a c); auto.
    intros k Hk. apply sget_bound_lt. apply Hcov. now apply Hk2.
  Qed.

  Lemma s_single_finish len : 0 < len -> deriv [] (SBound a len).
  Proof.
    intros Hl bs bs' B Rt.
    set (missing := filter (is_unbound string_dom (SBound a len)) reqk) in B.
    apply bind_all_eq_spec in B.
    assert (Hin : In (SBound a (s_extend h a missing len)) bs).
    { apply (extend_rel string_dom h false missing (SBound a len) bs _ B).
      apply ext_rel_bound; auto. right. intros k Hk. apply Hoff. unfold missing in Hk. apply filter_In in Hk. tauto. }
    destruct (rmapM_fwd _ _ _ _ Rt Hin) as [b' [Rb Hb']].
    pose proof (s_extend_ge h a missing len) as Hge.
    destruct (s_retain_anch _ _ _ a Hgood Rb) as [Hk [_ [Hbound _]]].
    destruct (Hbound (s_extend h a missing len)) as [L' [HL' ->]]; [lia|reflexivity|exact Hne|].
    exists (SBound a L'). split; [exact Hb'|]. split; [|now exists L'].
    unfold all_bound. apply forallb_forall. intros k Hkin.
    change (mget string_dom (SBound a L') k) with (sget (SBound a L') k). rewrite (Hk k Hkin).
    assert (k < s_extend h a missing len) as Hlt.
    { destruct (is_unbound string_dom (SBound a len) k) eqn:Eu.
      - apply s_extend_covers; [|now apply Hoff]. unfold missing. apply filter_In. auto.
      - unfold is_unbound in Eu. change (mget string_dom (SBound a len) k) with (sget (SBound a len) k) in Eu.
        cbn in Eu. destruct (N.ltb_spec k len); [lia|discriminate]. }
    now rewrite (sget_bound_lt _ _ _ Hlt).
  Qed.

  Lemma s_derivable_all cs : (forall c, In c cs -> sval h a c = true /\ cargs c <> []) ->
    forall m, anch a m -> (cs = [] -> exists len, 0 < len /\ m = SBound a len) -> deriv cs m.
  Proof.
    induction cs as [|c rest IH]; intros Hall m Hm Hnil.
    - destruct (Hnil eq_refl) as [len [Hl ->]]. now apply s_single_finish.
    - destruct (Hall c (or_introl eq_refl)) as [Hv Hargs].
      apply s_single_step; auto. intros L HL. apply IH.
      + intros c' Hc'. apply Hall. now right.
      + right. eauto.
      + intros _. eauto.
  Qed.
End StringSingle.

Theorem s_single_complete p h fuel r a : p <> [] ->
  single string_dom fuel (s_cvec p) h = Ok r -> occ_string p h a ->
  exists L, In (SBound a L) r.
Proof.
  intros Hne S Hocc. unfold single, single_ext in S.
  destruct (requested string_dom fuel [] (s_cvec p)) as [reqk| |] eqn:Rq; cbn [rbind] in S; try discriminate.
  destruct (s_requested_good _ _ _ Rq) as [Hg Hc]. cbn [app] in Hc.
  assert (Hv : forall d, In d (s_cvec p) -> sval h a d = true).
  { apply OccProofs.occ_string_iff in Hocc. apply (s_cvec_occ p h a Hne) in Hocc.
    rewrite forallb_forall in Hocc. intros d Hd. rewrite sval_cvalb. auto. }
  pose proof (s_cvec_nonempty p Hne) as Hn.
  assert (Hex : exists c k, In c (s_cvec p) /\ In k (cargs c)).
  { destruct (s_cvec p) as [|c cl] eqn:Ec; [contradiction|]. exists c.
    assert (Hc0 : In c (s_cvec p)) by (rewrite Ec; now left).
    pose proof (s_cvec_nonempty_args p c Hc0) as Hargs. destruct (cargs c) as [|k ks] eqn:Ea; [contradiction|].
    exists k. split; [now left|]. now left. }
  destruct Hex as [c0 [k0 [Hc0 Hk0]]].
  assert (Ha : a < blen h).
  { pose proof (sval_args_exist h a c0 k0 (Hv c0 Hc0) Hk0). pose proof (blen_ge_length h). lia. }
  assert (Hrne : reqk <> []).
  { intros ->. apply (Hc k0). apply in_flat_map. exists c0. auto. }
  assert (Hoff : forall k, In k reqk -> a + k < blen h).
  { intros k Hk. unfold requested in Rq. cbn [app] in Rq.
    destruct (s_amb_spec _ _ _ Rq) as [Hk1 _]. destruct (Hk1 k Hk) as [Hin| ->]; [|lia].
    apply in_flat_map in Hin as [c [Hc1 Hc2]].
    pose proof (sval_args_exist h a c k (Hv c Hc1) Hc2). pose proof (blen_ge_length h). lia. }
  destruct (single_loop_complete string_dom h reqk (Qa a) _ _ _ _ S) as [_ Hq].
  destruct (Hq (s_cvec p) SUnbound (or_introl eq_refl)) as [m' [Hm' [L ->]]].
  - apply (s_derivable_all h a Ha reqk Hg Hrne Hoff).
    + intros c Hc1. split; [now apply Hv|]. now apply (s_cvec_nonempty_args p).
    + now left.
    + intros E. contradiction.
  - exists L. exact Hm'.
Qed.

(** exactly the occurrences *)
Theorem s_single_exact p h fuel r : p <> [] ->
  single string_dom fuel (s_cvec p) h = Ok r ->
  (forall m, In m r -> exists a len, m = SBound a len /\ occ_string p h a)
  /\ (forall a, occ_string p h a <-> exists len, In (SBound a len) r).
Proof.
  intros Hne S. split.
  - intros m Hm. destruct (s_single_sound p h fuel r Hne S m Hm) as [a [len [E [O _]]]]. eauto.
  - intros a. split.
    + intros O. eapply s_single_complete; eauto.
    + intros [len Hin]. destruct (s_single_sound p h fuel r Hne S _ Hin) as [a' [len' [E [O _]]]].
      inversion E; subst. exact O.
Qed.

Theorem s_match_exists_exact p h fuel b : p <> [] ->
  match_exists string_dom fuel (s_cvec p) h = Ok b ->
  (b = true <-> exists a, occ_string p h a).
Proof.
  intros Hne Me. unfold match_exists in Me.
  destruct (single string_dom fuel (s_cvec p) h) as [r| |] eqn:S; cbn [rbind] in Me; try discriminate.
  destruct (s_single_exact p h fuel r Hne S) as [H1 H2]. inversion Me; subst b. split.
  - destruct r as [|m r']; [discriminate|]. intros _. destruct (H1 m (or_introl eq_refl)) as [a [len [_ O]]]. eauto.
  - intros [a O]. apply H2 in O as [len Hin]. destruct r; [destruct Hin|reflexivity].
Qed.

(** NaiveManyMatcher on strings: pattern i is reported exactly at its occurrences *)
Theorem s_naive_exact pats h fuel ms i p a :
  naive string_dom fuel (map s_cvec pats) h = Ok ms ->
  nth_error pats i = Some p -> p <> [] ->
  ((exists len, In (N.of_nat i, SBound a len) ms) <-> occ_string p h a).
Proof.
  intros Nv Hp Hne. pose proof (NaiveProofs.naive_spec string_dom fuel h _ _ Nv) as Sp. split.
  - intros [len Hin]. apply Sp in Hin as [j [cs [rj [Hn [Sg [Hm Ej]]]]]].
    apply Nnat.Nat2N.inj in Ej. subst j. rewrite nth_error_map, Hp in Hn. inversion Hn; subst cs.
    apply (proj2 (s_single_exact p h fuel rj Hne Sg)). eauto.
  - intros O.
    (* the single matcher of pattern i ran *)
    assert (Hs : exists rj, single string_dom fuel (s_cvec p) h = Ok rj).
    { clear Sp. unfold naive in Nv. revert Nv. generalize 0 as i0. revert i ms Hp.
      induction pats as [|q pats IH]; intros i ms Hp i0 Nv; [destruct i; discriminate|].
      cbn in Nv. destruct (single string_dom fuel (s_cvec q) h) as [r1| |] eqn:Sg; cbn [rbind] in Nv; try discriminate.
      destruct (naive_from string_dom fuel (i0 + 1) (map s_cvec pats) h) as [rs| |] eqn:Nf; cbn [rbind] in Nv; try discriminate.
      destruct i as [|i']; cbn in Hp.
      - inversion Hp; subst. eauto.
      - eapply IH; eauto. }
    destruct Hs as [rj Sg]. destruct (proj1 (proj2 (s_single_exact p h fuel rj Hne Sg) a) O) as [len Hin].
    exists len. apply Sp. exists i, (s_cvec p), rj. split; [rewrite nth_error_map, Hp; reflexivity|]. auto.
Qed.
