(** Port graphs: on a well-formed automaton the modelled traversal terminates
    (C08, matching half), with an explicit fuel bound: the number of candidate
    binding maps [bind_all] produces is bounded by a function of the host and of
    the key lists of the automaton, so the measure argument of RunTotal applies.

    The bound on [list_bind_options]: a bound key offers one value, PathRoot 0
    offers the live nodes, a later PathRoot key offers at most one candidate per
    (known root, port of that root), an AlongPath key at most one node. *)
From PM Require Import Model.Prelude Model.Domain Model.Constraint Model.BindAll Model.BindMaps Model.Automaton Model.Traversal
  Model.DomString Model.DomPGKeys Model.DomPG Cert.WfCheck
  Proofs.BindAllProofs Proofs.BindMapProofs Proofs.RunSound Proofs.WfSound Proofs.PGTreeProofs Proofs.PGLawful Proofs.RunTotal
  Proofs.PGTotal.
Local Open Scope nat_scope.

(** ** list facts *)
Lemma flat_map_length_le {X Y} (f : X -> list Y) l b :
  (forall x, In x l -> length (f x) <= b) -> length (flat_map f l) <= length l * b.
Proof.
  induction l as [|x xs IH]; intros Hb; cbn [flat_map length]; [lia|].
  rewrite app_length. specialize (Hb x (or_introl eq_refl)) as Hx.
  specialize (IH (fun y Hy => Hb y (or_intror Hy))). lia.
Qed.

Lemma flat_map_le1 {X Y} (f : X -> list Y) l :
  (forall x, length (f x) <= 1) -> length (flat_map f l) <= length l.
Proof.
  intros Hb. pose proof (flat_map_length_le f l 1 (fun x _ => Hb x)). lia.
Qed.

Lemma nodup_snoc {X} (l : list X) x : NoDup l -> ~ In x l -> NoDup (l ++ [x]).
Proof.
  induction l as [|y ys IH]; intros Hnd Hx; cbn [app]; [constructor; [intros []|constructor]|].
  inversion Hnd as [|? ? Hy Hys]; subst. constructor.
  - intros Hin. apply in_app_or in Hin as [Hin|[<-|[]]]; [auto|]. apply Hx. now left.
  - apply IH; auto. intros Hin. apply Hx. now right.
Qed.

Lemma nodup_map_filter {X Y} (g : X -> Y) (f : X -> bool) l : NoDup (map g l) -> NoDup (map g (filter f l)).
Proof.
  induction l as [|x xs IH]; cbn [filter map]; intros Hnd; [constructor|].
  inversion Hnd as [|? ? Hx Hxs]; subst. destruct (f x); cbn [map]; [|auto].
  constructor; [|auto]. intros Hin. apply Hx. apply in_map_iff in Hin as [y [Ey Hy]]. apply filter_In in Hy as [Hy _].
  rewrite <- Ey. now apply in_map.
Qed.

Lemma filter_length_le {X} (f : X -> bool) l : length (filter f l) <= length l.
Proof. induction l as [|x xs IH]; cbn [filter length]; [lia|]. destruct (f x); cbn [length]; lia. Qed.

(** ** the maps: distinct keys *)
Definition knd (m : pgmap) : Prop := NoDup (map fst m).

Lemma pgget_none_notin (m : pgmap) k : pgget m k = None -> ~ In k (map fst m).
Proof.
  unfold pgget. induction m as [|[k' v'] m IH]; cbn [aget map fst]; [intros _ []|].
  destruct (pgkey_eqb k k') eqn:E; [discriminate|]. intros Hg [<-|Hin]; [|now apply IH].
  assert (pgkey_eqb k' k' = true) as E' by now apply pgkey_eqb_eq. congruence.
Qed.

Lemma ainsert_absent (m : pgmap) k v : pgget m k = None -> ainsert pgkey_eqb m k v = m ++ [(k, v)].
Proof.
  unfold pgget. induction m as [|[k' v'] m IH]; cbn [aget ainsert app]; [reflexivity|].
  destruct (pgkey_eqb k k'); [discriminate|]. intros Hg. now rewrite IH.
Qed.

Lemma abind_absent_shape (m : pgmap) k v m' : pgget m k = None -> abind pgkey_eqb N.eqb m k v = Some m' ->
  m' = m ++ [(k, v)].
Proof.
  intros Hg B. unfold abind in B. change (aget pgkey_eqb m k) with (pgget m k) in B. rewrite Hg in B.
  inversion B. now apply ainsert_absent.
Qed.

Lemma aretain_knd ks (m : pgmap) : knd m -> knd (aretain pgkey_eqb ks m).
Proof. unfold knd, aretain. apply nodup_map_filter. Qed.

Lemma aretain_length ks (m : pgmap) : knd m -> length (aretain pgkey_eqb ks m) <= length ks.
Proof.
  intros Hnd. pose proof (aretain_knd ks m Hnd) as Hnd'. unfold knd in Hnd'.
  rewrite <- (map_length fst). apply NoDup_incl_length; [exact Hnd'|].
  intros k Hk. apply in_map_iff in Hk as [[k' v] [<- Hin]]. unfold aretain in Hin. apply filter_In in Hin as [_ Hm].
  cbn [fst] in *. now apply (memb_in pgkey_eqb pgkey_eqb_eq) in Hm.
Qed.

(** ** the number of options *)
Definition node_size (x : option (N * N)) : nat :=
  match x with Some (i, o) => N.to_nat i + N.to_nat o | None => 0 end.
Definition maxports (h : pghost) : nat := fold_right Nat.max 0 (map node_size (pg_nodes h)).

Lemma nseq_length n : length (nseq n) = N.to_nat n.
Proof. unfold nseq. now rewrite map_length, seq_length. Qed.

Lemma all_ports_length h n : length (all_ports h n) <= maxports h.
Proof.
  unfold all_ports, node_ports. destruct (nth_error (pg_nodes h) (N.to_nat n)) as [[[i o]|]|] eqn:E; cbn [length]; try lia.
  rewrite app_length, !map_length, !nseq_length.
  apply nth_error_In in E. apply (list_max_ge node_size) in E. exact E.
Qed.

Lemma known_roots_from_length fuel m i : length (known_roots_from fuel m i) <= fuel.
Proof.
  revert i. induction fuel as [|f IH]; intros i; cbn [known_roots_from length]; [lia|].
  destruct (pgget m (PathRoot i)); cbn [length]; [|lia]. specialize (IH (i + 1)%N). lia.
Qed.

Lemma known_roots_length m : length (known_roots m) <= S (length m).
Proof. apply known_roots_from_length. Qed.

Lemma spanning_tree_shape h m free :
  length (spanning_tree h m free) <= length (known_roots m) /\
  Forall (fun nbs => length nbs <= maxports h) (spanning_tree h m free).
Proof.
  unfold spanning_tree.
  match goal with |- context [fold_left ?F (combine ?x ?y) ?a] => set (F0 := F); set (irs := combine x y) end.
  assert (G : forall l acc,
             length (fst (fold_left F0 l acc)) = length (fst acc) + length l /\
             (Forall (fun nbs => length nbs <= maxports h) (fst acc) ->
              Forall (fun nbs => length nbs <= maxports h) (fst (fold_left F0 l acc)))).
  { induction l as [|[i node] l IH]; intros [tree seen]; cbn [fold_left fst length]; [split; [lia|auto]|].
    unfold F0 at 2 4.
    match goal with |- context [fold_left ?Gf (all_ports h node) ?a] => set (G0 := Gf); set (a0 := a) end.
    assert (GI : forall ps a2, length (fst (fold_left G0 ps a2)) <= length (fst a2) + length ps).
    { induction ps as [|p ps IHp]; intros [nbs sn]; cbn [fold_left fst]; [lia|].
      unfold G0 at 2.
      destruct (traverse_steps (tl (walk_path h node p)) p i sn (map snd m) (known_roots m) free []) as [[t|] sn'].
      - specialize (IHp (nbs ++ [(p, t)], sn')). cbn [fst] in IHp. rewrite app_length in IHp. cbn [length] in *. lia.
      - specialize (IHp (nbs, sn')). cbn [fst] in IHp. cbn [length]. lia. }
    specialize (GI (all_ports h node) a0).
    destruct (fold_left G0 (all_ports h node) a0) as [nbs seen'] eqn:EG.
    specialize (IH (tree ++ [nbs], seen')). cbn [fst] in IH, GI. destruct IH as [IH1 IH2].
    rewrite app_length in IH1. cbn [length] in *. split; [lia|].
    intros HF. apply IH2. apply Forall_app. split; [exact HF|]. constructor; [|constructor].
    unfold a0 in GI. cbn [fst length] in GI. pose proof (all_ports_length h node). lia. }
  specialize (G irs ([], [])). destruct (fold_left F0 irs ([], [])) as [tree s]. cbn [fst length] in G.
  destruct G as [G1 G2]. split; [|apply G2; constructor].
  rewrite G1. unfold irs. rewrite combine_length, nseq_length. lia.
Qed.

Lemma frc_length h m l : find_root_candidates h m = Ok l -> length l <= S (length m) * maxports h.
Proof.
  unfold find_root_candidates. destruct (nodes_with_free_ports h m) as [free| |]; cbn [rbind]; try discriminate.
  intros E. inversion E as [El]. clear E El.
  destruct (spanning_tree_shape h m free) as [S1 S2].
  match goal with |- length (flat_map ?g _) <= _ => set (g0 := g) end.
  assert (Hg : forall nbs, In nbs (spanning_tree h m free) -> length (g0 nbs) <= maxports h).
  { intros nbs Hin. rewrite Forall_forall in S2. specialize (S2 nbs Hin). unfold g0.
    etransitivity; [apply flat_map_le1|exact S2].
    intros [p nb]. cbn [snd fst]. destruct nb; cbn [length]; try lia.
    match goal with |- context [if ?b then _ else _] => destruct b end; cbn [length]; lia. }
  pose proof (flat_map_length_le g0 _ _ Hg) as Hl. pose proof (known_roots_length m) as Hk.
  assert (length (spanning_tree h m free) * maxports h <= S (length m) * maxports h) by (apply Nat.mul_le_mono_r; lia).
  lia.
Qed.

Lemma live_nodes_length h : length (live_nodes h) <= length (pg_nodes h).
Proof.
  unfold live_nodes. etransitivity; [apply flat_map_le1|].
  - intros [n [x|]]; cbn [snd fst length]; lia.
  - rewrite combine_length. lia.
Qed.

Definition optbound (h : pghost) (L : nat) : nat := Nat.max 1 (Nat.max (length (pg_nodes h)) (S L * maxports h)).

Lemma pg_opts_length h k m vs L : pg_opts h k m = Ok vs -> length m <= L -> length vs <= optbound h L.
Proof.
  unfold pg_opts, optbound. intros E HL. destruct (pgget m k); [inversion E; cbn [length]; lia|].
  destruct k as [i|r p len].
  - destruct (N.eqb i 0).
    + inversion E. pose proof (live_nodes_length h). lia.
    + destruct (pgget m (PathRoot (i - 1))); [|inversion E; cbn [length]; lia].
      apply frc_length in E.
      assert (S (length m) * maxports h <= S L * maxports h) by (apply Nat.mul_le_mono_r; lia). lia.
  - destruct (pgget m (PathRoot r)); [|inversion E; cbn [length]; lia].
    inversion E. destruct (nth_error _ _); cbn [length]; lia.
Qed.

(** ** bind_all: invariants and number of candidates *)
Definition Q (n : nat) (m : pgmap) : Prop := aroots m /\ knd m /\ length m <= n.

Lemma Q_mono n n' m : n <= n' -> Q n m -> Q n' m.
Proof. intros Hn [H1 [H2 H3]]. repeat split; auto. lia. Qed.

Section Bounds.
  Variable h : pghost.
  Variable Lmax : nat.
  Let B1 := optbound h Lmax.

  Lemma B1_pos : 1 <= B1.
  Proof. unfold B1, optbound. lia. Qed.

  Lemma pg_bind_key_bound inc k m n : Q n m -> n <= Lmax ->
    exists r, bind_key pg_dom h inc k m = Ok r /\ Forall (Q (S n)) r /\ length r <= B1.
  Proof.
    intros HQ Hn. pose proof B1_pos as HB. destruct HQ as [Ha [Hk Hl]].
    assert (HQS : Q (S n) m) by (repeat split; auto).
    unfold bind_key. change (mget pg_dom m k) with (pgget m k).
    destruct (pgget m k) as [v0|] eqn:G; [exists [m]; split; [reflexivity|]; split; [auto|cbn [length]; lia]|].
    cbn [opts pg_dom]. destruct (pg_opts_total h k m Ha) as [vs Ho]. rewrite Ho. cbn [rbind].
    pose proof (pg_opts_length h k m vs Lmax Ho ltac:(lia)) as Hvs. fold B1 in Hvs.
    destruct vs as [|v vs'] eqn:Evs; [destruct inc; eexists; (split; [reflexivity|]); (split; [auto|cbn [length]; lia])|].
    rewrite <- Evs in *. eexists. split; [destruct vs; [discriminate|reflexivity]|]. split.
    - apply Forall_forall. intros m' Hm'. apply in_flat_map in Hm' as [w [Hw Hm']].
      change (mbind pg_dom m k w) with (abind pgkey_eqb N.eqb m k w) in Hm'.
      destruct (abind pgkey_eqb N.eqb m k w) as [m2|] eqn:B; [|destruct Hm']. destruct Hm' as [<-|[]].
      split; [eapply abind_aroots; eauto|].
      rewrite (abind_absent_shape m k w m2 G B). split.
      + unfold knd. rewrite map_app. cbn [map fst]. apply nodup_snoc; [exact Hk|]. now apply pgget_none_notin.
      + rewrite app_length. cbn [length]. lia.
    - etransitivity; [apply flat_map_le1|exact Hvs].
      intros w. destruct (mbind pg_dom m k w); cbn [length]; lia.
  Qed.

  Lemma pg_bind_list_bound inc : forall ks ms n, Forall (Q n) ms -> n + length ks <= Lmax ->
    exists l, bind_all_list pg_dom h inc ks ms = Ok l /\ Forall (Q (n + length ks)) l
              /\ length l <= length ms * Nat.pow B1 (length ks).
  Proof.
    induction ks as [|k ks IH]; intros ms n HF Hn.
    - exists ms. cbn [bind_all_list length Nat.pow]. split; [reflexivity|]. split; [|lia].
      rewrite Nat.add_0_r. exact HF.
    - cbn [length] in Hn.
      assert (Hk : exists ms', rflatM (bind_key pg_dom h inc k) ms = Ok ms' /\ Forall (Q (S n)) ms' /\ length ms' <= length ms * B1).
      { clear IH. induction ms as [|m0 ms IHm]; [exists []; cbn; split; [reflexivity|]; split; [constructor|lia]|].
        inversion HF as [|? ? Hm0 Hms]; subst.
        destruct (pg_bind_key_bound inc k m0 n Hm0 ltac:(lia)) as [r [Er [Fr Lr]]].
        destruct (IHm Hms) as [ms' [E' [F' L']]]. exists (r ++ ms'). cbn [rflatM]. rewrite Er. cbn [rbind]. rewrite E'. cbn [rbind].
        split; [reflexivity|]. split; [apply Forall_app; auto|]. rewrite app_length. cbn [length]. lia. }
      destruct Hk as [ms' [E' [F' L']]].
      destruct (IH ms' (S n) F' ltac:(lia)) as [l [El [Fl Ll]]].
      exists l. cbn [bind_all_list]. rewrite E'. cbn [rbind]. split; [exact El|]. split.
      + cbn [length]. replace (n + S (length ks)) with (S n + length ks) by lia. exact Fl.
      + cbn [length Nat.pow].
        assert (length ms' * B1 ^ length ks <= (length ms * B1) * B1 ^ length ks) by (apply Nat.mul_le_mono_r; exact L').
        lia.
  Qed.
End Bounds.

(** ** the instance of the generic termination theorem *)
Definition state_keys {K P} (st : astate K P) : nat :=
  length (a_scope st) + fold_right Nat.max 0 (map (fun pk : N * list K => length (snd pk)) (a_matches st)).
Definition kmax {K P} (A : automaton K P) : nat := fold_right Nat.max 0 (map state_keys (au_states A)).

Theorem pg_run_total (A : automaton pgkey pgpred) rk ids h :
  wf_check pg_dom A rk ids = true -> arity_ok pg_dom A = true ->
  exists fuel0, forall fuel, (fuel0 <= fuel)%nat -> exists ms, run pg_dom fuel A h = Ok ms.
Proof.
  intros W HAR. pose proof (wf_check_sound pg_dom pg_dom_eq A rk ids W) as HWF.
  destruct (wf_acyclic _ _ _ HWF) as [rank Hrank].
  set (km := kmax A).
  apply (run_total_gen pg_dom A ids HWF HAR h (Q km) (Q (km + km)) (fun m Hm => Q_mono km (km + km) m ltac:(lia) Hm)
           (Nat.pow (optbound h (km + km)) km)) with (okks := fun ks => length ks <= km) (rank := rank); auto.
  - split; [intros r p l v []|split; [constructor|cbn [length mempty pg_dom]; lia]].
  - intros st Hst. pose proof (list_max_ge state_keys (au_states A) st Hst) as Hm. unfold state_keys in Hm at 1. fold km in Hm.
    unfold kmax in km. lia.
  - intros st pk f Hst Hpk. pose proof (list_max_ge state_keys (au_states A) st Hst) as Hm. unfold state_keys in Hm at 1.
    pose proof (list_max_ge (fun pk : N * list pgkey => length (snd pk)) (a_matches st) pk Hpk) as Hp. cbn beta in Hp.
    pose proof (filter_length_le f (snd pk)). unfold kmax in km. lia.
  - intros m ks inc Hm Hks. unfold bind_all.
    destruct (pg_bind_list_bound h (km + km) inc ks [m] km (Forall_cons _ Hm (Forall_nil _)) ltac:(lia)) as [l [El [Fl Ll]]].
    exists l. split; [exact El|]. split.
    + cbn [length] in Ll. rewrite Nat.mul_1_l in Ll. etransitivity; [exact Ll|].
      apply Nat.pow_le_mono_r; [unfold optbound; lia|exact Hks].
    + eapply Forall_impl; [|exact Fl]. intros m' Hm'. eapply Q_mono; [|exact Hm']. lia.
  - intros st m Hst [Ha [Hk Hl]]. eexists. split; [reflexivity|]. split; [|split].
    + apply aretain_aroots; auto. apply (wf_scope_ordered _ _ _ HWF st Hst).
    + now apply aretain_knd.
    + etransitivity; [apply aretain_length; exact Hk|].
      pose proof (list_max_ge state_keys (au_states A) st Hst) as Hm. unfold state_keys in Hm at 1. unfold kmax in km. lia.
  - intros st pk m _ _ _. eexists. reflexivity.
  - intros c m Ha _. now apply pg_sat_total.
Qed.
