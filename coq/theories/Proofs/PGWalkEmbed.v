(** Walks commute with embeddings: when [f] maps the links of a pattern graph P to
    links of a well-formed host H and is injective on the nodes of P, the walk of
    H from [f start] through port [off] visits, position by position, the images
    of the nodes that the walk of P from [start] through [off] visits (it may go
    on where the walk of P stops). *)
From PM Require Import Model.Prelude Model.Domain Model.BindMaps Model.DomString Model.DomPGKeys Model.DomPG
  Proofs.PGTreeProofs Proofs.PGEmbedComplete.
Local Open Scope N_scope.

Definition link_end (l : N * N * N * N) (n : N) : Prop := let '(a, _, b, _) := l in n = a \/ n = b.
Definition pnode (P : pghost) (n : N) : Prop := exists l, In l (pg_links P) /\ link_end l n.

Section WalkEmbed.
  Variable P H : pghost.
  Variable f : N -> N.
  Hypothesis HwfH : pg_host_wf H.
  Hypothesis Hlinks : forall a oa b ib, In (a, oa, b, ib) (pg_links P) -> In (f a, oa, f b, ib) (pg_links H).
  Hypothesis Hinj : forall u v, pnode P u -> pnode P v -> f u = f v -> u = v.

  (** a link found at a port of P is a link of P *)
  Lemma port_link_in cur np n' p' : port_link P cur np = Some (n', p') ->
    match np, p' with
    | POut k, PIn ib => In (cur, k, n', ib) (pg_links P)
    | PIn k, POut oa => In (n', oa, cur, k) (pg_links P)
    | _, _ => False
    end.
  Proof.
    unfold port_link. destruct np as [k|k].
    - destruct (find _ (pg_links P)) as [[[[a oa] b] ib]|] eqn:F; [|discriminate].
      intros E. inversion E; subst. apply find_some in F as [Hin Hf]. apply andb_true_iff in Hf as [E1 E2].
      apply N.eqb_eq in E1, E2. subst. exact Hin.
    - destruct (find _ (pg_links P)) as [[[[a oa] b] ib]|] eqn:F; [|discriminate].
      intros E. inversion E; subst. apply find_some in F as [Hin Hf]. apply andb_true_iff in Hf as [E1 E2].
      apply N.eqb_eq in E1, E2. subst. exact Hin.
  Qed.

  (** in a well-formed graph the link at a port is found *)
  Lemma port_link_of_link_out a oa b ib : In (a, oa, b, ib) (pg_links H) -> port_link H a (POut oa) = Some (b, PIn ib).
  Proof.
    intros Hin. destruct (has_edge_of_link H a oa b ib HwfH Hin) as [E _]. unfold has_edge in E.
    apply andb_true_iff in E as [_ E]. destruct (port_link H a (POut oa)) as [[n' p']|]; [|discriminate].
    apply andb_true_iff in E as [E1 E2]. apply N.eqb_eq in E1. subst n'.
    unfold pgport_eqb in E2. destruct (pgport_cmp p' (PIn ib)) eqn:Ec; try discriminate. apply pgport_cmp_eq in Ec. now subst.
  Qed.
  Lemma port_link_of_link_in a oa b ib : In (a, oa, b, ib) (pg_links H) -> port_link H b (PIn ib) = Some (a, POut oa).
  Proof.
    intros Hin. destruct (has_edge_of_link H a oa b ib HwfH Hin) as [_ E]. unfold has_edge in E.
    apply andb_true_iff in E as [_ E]. destruct (port_link H b (PIn ib)) as [[n' p']|]; [|discriminate].
    apply andb_true_iff in E as [E1 E2]. apply N.eqb_eq in E1. subst n'.
    unfold pgport_eqb in E2. destruct (pgport_cmp p' (POut oa)) eqn:Ec; try discriminate. apply pgport_cmp_eq in Ec. now subst.
  Qed.

  (** one step of a walk *)
  Lemma step_embed cur np n' p' : port_link P cur np = Some (n', p') ->
    port_link H (f cur) np = Some (f n', p') /\ has_port H (f cur) np = true /\ has_port H (f n') p' = true
    /\ pnode P cur /\ pnode P n'.
  Proof.
    intros E. pose proof (port_link_in cur np n' p' E) as Hin. destruct HwfH as [W1 _].
    destruct np as [k|k], p' as [q|q]; try contradiction.
    - pose proof (Hlinks _ _ _ _ Hin) as HinH. destruct (W1 _ _ _ _ HinH) as [Hp1 Hp2].
      split; [now apply port_link_of_link_in|]. split; [exact Hp2|]. split; [exact Hp1|].
      split; eexists; (split; [exact Hin|]); cbn; auto.
    - pose proof (Hlinks _ _ _ _ Hin) as HinH. destruct (W1 _ _ _ _ HinH) as [Hp1 Hp2].
      split; [now apply port_link_of_link_out|]. split; [exact Hp1|]. split; [exact Hp2|].
      split; eexists; (split; [exact Hin|]); cbn; auto.
  Qed.

  Definition wnodes (l : list wstep) : list N := map (fun s => snd (fst s)) l.

  Lemma walk_from_embed start : pnode P start -> forall fuelP fuelH cur np i n, (fuelP <= fuelH)%nat ->
    nth_error (wnodes (walk_from fuelP P start cur (Some np))) i = Some n ->
    nth_error (wnodes (walk_from fuelH H (f start) (f cur) (Some np))) i = Some (f n).
  Proof.
    intros Hst. induction fuelP as [|fP IH]; intros fuelH cur np i n Hle Hn; [destruct i; discriminate|].
    destruct fuelH as [|fH]; [lia|]. cbn [walk_from] in Hn |- *.
    destruct (port_link P cur np) as [[n' p']|] eqn:E; [|destruct i; discriminate].
    destruct (step_embed cur np n' p' E) as [EH [_ [HpH [Hcur Hn']]]]. rewrite EH.
    destruct (N.eqb_spec n' start) as [->|Hns]; [destruct i; discriminate|].
    destruct (N.eqb_spec (f n') (f start)) as [Ef|_]; [exfalso; apply Hns; now apply Hinj|].
    destruct i as [|j]; cbn [wnodes map nth_error fst snd] in Hn |- *; [now inversion Hn|].
    (* the walk of P goes on: through the opposite port, which carries a link *)
    destruct (has_port P n' (flip p')) eqn:HpP; [|destruct fP; destruct j; discriminate].
    fold (wnodes (walk_from fP P start n' (Some (flip p')))) in Hn.
    assert (HH : has_port H (f n') (flip p') = true).
    { destruct fP as [|fP']; [destruct j; discriminate|]. cbn [walk_from] in Hn.
      destruct (port_link P n' (flip p')) as [[n2 p2]|] eqn:E2; [|destruct j; discriminate].
      now destruct (step_embed n' (flip p') n2 p2 E2) as [_ [Hp _]]. }
    rewrite HH. fold (wnodes (walk_from fH H (f start) (f n') (Some (flip p')))).
    apply IH; [lia|exact Hn].
  Qed.

  (** the whole walk_path, as used by list_bind_options *)
  Theorem walk_nodes_embed start off i n : (length (pg_links P) <= length (pg_links H))%nat ->
    nth_error (walk_nodes P start off) i = Some n -> nth_error (walk_nodes H (f start) off) i = Some (f n).
  Proof.
    intros Hlen. unfold walk_nodes, walk_path. cbn [map fst snd].
    destruct i as [|j]; cbn [nth_error]; [intros E; now inversion E|].
    destruct (has_port P start off) eqn:HpP; [|unfold walk_fuel; cbn [walk_from]; destruct j; discriminate].
    change (map (fun s : wstep => snd (fst s)) (walk_from (walk_fuel P) P start start (Some off)))
      with (wnodes (walk_from (walk_fuel P) P start start (Some off))).
    intros Hn.
    assert (HH : has_port H (f start) off = true /\ pnode P start).
    { unfold walk_fuel in Hn. cbn [walk_from] in Hn.
      destruct (port_link P start off) as [[n2 p2]|] eqn:E2; [|destruct j; discriminate].
      destruct (step_embed start off n2 p2 E2) as [_ [Hp [_ [Hc _]]]]. auto. }
    destruct HH as [HH Hst]. rewrite HH.
    change (map (fun s : wstep => snd (fst s)) (walk_from (walk_fuel H) H (f start) (f start) (Some off)))
      with (wnodes (walk_from (walk_fuel H) H (f start) (f start) (Some off))).
    apply (walk_from_embed start Hst (walk_fuel P) (walk_fuel H)); [unfold walk_fuel; lia|exact Hn].
  Qed.
End WalkEmbed.
