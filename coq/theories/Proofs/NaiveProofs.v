(** NaiveManyMatcher numbers patterns by their position and reports for each
    exactly what the single-pattern matcher reports (C05). *)
From PM Require Import Model.Prelude Model.Domain Model.Matchers.

Section Naive.
  Context {K V M H P : Type} (D : DomOps K V M H P).

  Theorem naive_from_spec fuel h css : forall i r,
    naive_from D fuel i css h = Ok r ->
    forall n m, In (n, m) r <->
      exists j cs rj, nth_error css j = Some cs /\ single D fuel cs h = Ok rj /\ In m rj
                      /\ n = (i + N.of_nat j)%N.
  Proof.
    induction css as [|cs css IH]; intros i r R n m; cbn in R.
    - inversion R; subst. split; [intros []|]. intros [j [cs [rj [Hn _]]]]. destruct j; discriminate.
    - destruct (single D fuel cs h) as [r1| |] eqn:Sg; cbn in R; try discriminate.
      destruct (naive_from D fuel (i + 1) css h) as [r2| |] eqn:R2; cbn in R; try discriminate.
      inversion R; subst. rewrite in_app_iff, (IH _ _ R2). split.
      + intros [Hin|[j [cs' [rj [Hn [Hs [Hm ->]]]]]]].
        * apply in_map_iff in Hin as [m' [Em Hm]]. inversion Em; subst.
          exists 0, cs, r1. cbn. repeat split; auto. lia.
        * exists (S j), cs', rj. cbn. repeat split; auto. lia.
      + intros [[|j] [cs' [rj [Hn [Hs [Hm ->]]]]]]; cbn in Hn.
        * inversion Hn; subst. rewrite Sg in Hs. inversion Hs; subst.
          left. apply in_map_iff. exists m. split; auto. f_equal. lia.
        * right. exists j, cs', rj. repeat split; auto. lia.
  Qed.

  Theorem naive_spec fuel h css r :
    naive D fuel css h = Ok r ->
    forall n m, In (n, m) r <->
      exists j cs rj, nth_error css j = Some cs /\ single D fuel cs h = Ok rj /\ In m rj
                      /\ n = N.of_nat j.
  Proof. intros R n m. unfold naive in R. rewrite (naive_from_spec _ _ _ _ _ R). reflexivity. Qed.
End Naive.
