(** C10: with_powerset is faithful for every valuation under which
    [conditioned] is an equivalence (generic part). *)
From PM Require Import Model.Prelude Model.CTree Spec.TreeSem Proofs.TreeProofs.

Section Powerset.
  Context {C : Type} (ceqb : C -> C -> bool) (conditioned : C -> list C -> option C) (v : C -> bool).
  Notation tnode := (tnode C).
  Notation ctree := (ctree C).
  Variable cs : list (C * nat).
  Variable orig : list C.
  Hypothesis cs_indexed : forall c i, In (c, i) cs -> nth_error orig i = Some c.
  Hypothesis ceqb_v : forall a b, ceqb a b = true -> v a = v b.
  (** conditioned c sat is equivalent to c when everything in sat holds *)
  Hypothesis cond_equiv : forall c sat,
    In c (map fst cs) -> incl sat (map fst cs) -> (forall s, In s sat -> v s = true) ->
    match conditioned c sat with None => v c = true | Some c' => v c' = v c end.

  (** ** structural invariant: edges go to larger indices; unique parent edge *)
  Definition wft (t : ctree) : Prop :=
    (forall n nd c k, nth_error (ct_nodes t) n = Some nd -> In (c, k) (tn_children nd) ->
                      n < k < length (ct_nodes t))
    /\ (forall n1 nd1 c1 n2 nd2 c2 k,
          nth_error (ct_nodes t) n1 = Some nd1 -> In (c1, k) (tn_children nd1) ->
          nth_error (ct_nodes t) n2 = Some nd2 -> In (c2, k) (tn_children nd2) ->
          n1 = n2 /\ c1 = c2)
    /\ 0 < length (ct_nodes t).

  Lemma treach_inv t n nd c k :
    wft t -> nth_error (ct_nodes t) n = Some nd -> In (c, k) (tn_children nd) ->
    treach v t k -> treach v t n /\ v c = true.
  Proof.
    intros [W1 [W2 _]] Hn Hin Hr.
    inversion Hr as [|n' nd' c' m Hr' Hn' Hin' Hv']; subst.
    - destruct (W1 _ _ _ _ Hn Hin). lia.
    - destruct (W2 _ _ _ _ _ _ _ Hn Hin Hn' Hin') as [-> ->]. auto.
  Qed.

  (** reachability is unaffected by label changes *)
  Lemma treach_same_children (t t' : ctree) :
    (forall n, option_map (@tn_children C) (nth_error (ct_nodes t') n)
               = option_map (@tn_children C) (nth_error (ct_nodes t) n)) ->
    forall n, treach v t n -> treach v t' n.
  Proof.
    intros Hc n Hr. induction Hr as [|n nd c m Hr IH Hn Hin Hv]; [constructor|].
    specialize (Hc n). rewrite Hn in Hc. cbn in Hc.
    destruct (nth_error (ct_nodes t') n) as [nd'|] eqn:Hn'; [|discriminate].
    cbn in Hc. inversion Hc as [Hc']. eapply tr_child; eauto. now rewrite Hc'.
  Qed.

  Lemma add_index_treach (t t' : ctree) n i m :
    add_index t n i = Ok t' -> (treach v t' m <-> treach v t m).
  Proof.
    intros A. destruct (add_index_spec _ _ _ _ A) as [nd [Hn [Hn' [Ho [Hl Hd]]]]].
    split; apply treach_same_children; intros k; destruct (Nat.eq_dec k n) as [->|Hne];
      try (rewrite Hn, Hn'; reflexivity); rewrite Ho; auto.
  Qed.

  Lemma add_index_wft (t t' : ctree) n i : add_index t n i = Ok t' -> wft t -> wft t'.
  Proof.
    intros A [W1 [W2 W3]]. destruct (add_index_spec _ _ _ _ A) as [nd [Hn [Hn' [Ho [Hl Hd]]]]].
    assert (Hch : forall k ndk, nth_error (ct_nodes t') k = Some ndk ->
                  exists ndk0, nth_error (ct_nodes t) k = Some ndk0 /\ tn_children ndk0 = tn_children ndk).
    { intros k ndk Hk. destruct (Nat.eq_dec k n) as [->|Hne].
      - rewrite Hn' in Hk. inversion Hk; subst. exists nd. auto.
      - rewrite Ho in Hk by auto. eauto. }
    split; [|split].
    - intros k ndk c m Hk Hin. destruct (Hch _ _ Hk) as [nd0 [H0 Hc]]. rewrite <- Hc in Hin.
      rewrite Hl. eapply W1; eauto.
    - intros n1 nd1 c1 n2 nd2 c2 k H1 I1 H2 I2.
      destruct (Hch _ _ H1) as [a [Ha Ca]]. destruct (Hch _ _ H2) as [b [Hb Cb]].
      rewrite <- Ca in I1. rewrite <- Cb in I2. eapply W2; eauto.
    - now rewrite Hl.
  Qed.

  (** a fresh child *)
  Lemma fresh_child_facts (t t' : ctree) n c k nd :
    wft t -> nth_error (ct_nodes t) n = Some nd ->
    k = length (ct_nodes t) ->
    length (ct_nodes t') = S (length (ct_nodes t)) ->
    nth_error (ct_nodes t') n = Some {| tn_labels := tn_labels nd; tn_children := tn_children nd ++ [(c, k)] |} ->
    nth_error (ct_nodes t') k = Some tnode_new ->
    (forall m, m <> n -> m <> k -> nth_error (ct_nodes t') m = nth_error (ct_nodes t) m) ->
    wft t'
    /\ (forall m, m < length (ct_nodes t) -> (treach v t' m <-> treach v t m))
    /\ (treach v t' k <-> treach v t n /\ v c = true).
  Proof.
    intros [W1 [W2 W3]] Hn Ek Hlen Hn' Hk Hoth.
    assert (Hnlt : n < length (ct_nodes t)) by (apply nth_error_Some; congruence).
    assert (Hnk : n <> k) by lia.
    (* edges of t' *)
    assert (Hedge : forall m ndm c0 j, nth_error (ct_nodes t') m = Some ndm -> In (c0, j) (tn_children ndm) ->
              (exists ndm0, nth_error (ct_nodes t) m = Some ndm0 /\ In (c0, j) (tn_children ndm0))
              \/ (m = n /\ c0 = c /\ j = k)).
    { intros m ndm c0 j Hm Hin. destruct (Nat.eq_dec m n) as [->|Hmn].
      - rewrite Hn' in Hm. inversion Hm; subst. cbn in Hin. apply in_app_or in Hin as [Hin|[E|[]]].
        + left. eauto.
        + inversion E; subst. right. auto.
      - destruct (Nat.eq_dec m k) as [->|Hmk].
        + rewrite Hk in Hm. inversion Hm; subst. destruct Hin.
        + rewrite Hoth in Hm by auto. left. eauto. }
    assert (Wt' : wft t').
    { split; [|split; [|lia]].
      - intros m ndm c0 j Hm Hin. destruct (Hedge _ _ _ _ Hm Hin) as [[nd0 [H0 I0]]|[Em [Ec Ej]]].
        + destruct (W1 _ _ _ _ H0 I0). lia.
        + lia.
      - intros n1 nd1 c1 n2 nd2 c2 j H1 I1 H2 I2.
        destruct (Hedge _ _ _ _ H1 I1) as [[a [Ha Ia]]|[E1 [E2 E3]]];
          destruct (Hedge _ _ _ _ H2 I2) as [[b [Hb Ib]]|[F1 [F2 F3]]].
        + eapply W2; eauto.
        + destruct (W1 _ _ _ _ Ha Ia). lia.
        + destruct (W1 _ _ _ _ Hb Ib). lia.
        + split; congruence. }
    assert (Hup : forall m, treach v t m -> treach v t' m).
    { intros m Hr. induction Hr as [|m ndm c0 j Hr IH Hm Hin Hv]; [constructor|].
      destruct (Nat.eq_dec m n) as [->|Hmn].
      - rewrite Hn in Hm. inversion Hm; subst. eapply tr_child; [exact IH|exact Hn'| |exact Hv].
        cbn. apply in_or_app. now left.
      - assert (m <> k). { intros ->. assert (k < length (ct_nodes t)) by (apply nth_error_Some; congruence). lia. }
        eapply tr_child; [exact IH| |exact Hin|exact Hv]. rewrite Hoth; auto. }
    assert (Hdown : forall m, treach v t' m ->
                    (m < length (ct_nodes t) -> treach v t m) /\ (m = k -> treach v t n /\ v c = true)).
    { intros m Hr. induction Hr as [|m ndm c0 j Hr IH Hm Hin Hv].
      - split; [intros _; constructor|intros E; lia].
      - destruct (Hedge _ _ _ _ Hm Hin) as [[nd0 [H0 I0]]|[Em [Ec Ej]]].
        + assert (Hml : m < length (ct_nodes t)) by (apply nth_error_Some; congruence).
          destruct (W1 _ _ _ _ H0 I0) as [_ Hjl]. split.
          * intros _. eapply tr_child; [apply (proj1 IH); exact Hml|exact H0|exact I0|exact Hv].
          * intros E. lia.
        + subst m c0 j. split; [intros; lia|]. intros _. split; auto. apply (proj1 IH). exact Hnlt. }
    split; [exact Wt'|]. split.
    - intros m Hm. split; [intros Hr; now apply (proj1 (Hdown m Hr))|apply Hup].
    - split.
      + intros Hr. now apply (proj2 (Hdown k Hr)).
      + intros [Hr Hv]. eapply tr_child; [apply Hup; exact Hr|exact Hn'| |exact Hv].
        cbn. apply in_or_app. right. now left.
  Qed.

  (** ** monotone growth of the tree *)
  Definition grows (t t' : ctree) : Prop :=
    length (ct_nodes t) <= length (ct_nodes t')
    /\ (forall m, m < length (ct_nodes t) -> (treach v t' m <-> treach v t m))
    /\ (forall i n, labelled t i n -> labelled t' i n).

  Lemma grows_refl t : grows t t.
  Proof. split; [lia|]. split; [tauto|auto]. Qed.

  Lemma grows_trans a b c : grows a b -> grows b c -> grows a c.
  Proof.
    intros [L1 [R1 B1]] [L2 [R2 B2]]. split; [lia|]. split; auto.
    intros m Hm. rewrite R2 by lia. now apply R1.
  Qed.

  Lemma add_index_grows (t t' : ctree) n i : add_index t n i = Ok t' ->
    grows t t' /\ labelled t' i n /\ length (ct_nodes t') = length (ct_nodes t)
    /\ (forall j m, labelled t' j m -> labelled t j m \/ (j = i /\ m = n)).
  Proof.
    intros A. assert (R : forall m, treach v t' m <-> treach v t m) by (intros m; exact (add_index_treach _ _ _ _ m A)).
    destruct (add_index_spec _ _ _ _ A) as [nd [Hn [Hn' [Ho [Hl Hd]]]]].
    split; [|split; [|split; [exact Hl|]]].
    - split; [lia|]. split; [intros m _; apply R|].
      intros j m [ndm [Hm Hj]]. destruct (Nat.eq_dec m n) as [->|Hne].
      + rewrite Hn in Hm. inversion Hm; subst. eexists. split; [exact Hn'|]. cbn. apply in_or_app. now left.
      + exists ndm. rewrite Ho; auto.
    - eexists. split; [exact Hn'|]. cbn. apply in_or_app. right. now left.
    - intros j m [ndm [Hm Hj]]. destruct (Nat.eq_dec m n) as [->|Hne].
      + rewrite Hn' in Hm. inversion Hm; subst. cbn in Hj. apply in_app_or in Hj as [Hj|[<-|[]]].
        * left. exists nd. auto.
        * right. auto.
      + left. exists ndm. rewrite <- Ho; auto.
  Qed.

  (** ** invariants *)
  Definition sound_t (t : ctree) : Prop :=
    forall n i, labelled t i n -> exists c, In (c, i) cs /\ (treach v t n -> v c = true).

  Definition item_ok (t : ctree) (it : qitem (C := C)) : Prop :=
    q_node it < length (ct_nodes t) /\ incl (q_sat it) (map fst cs)
    /\ (treach v t (q_node it) -> forall s, In s (q_sat it) -> v s = true).

  Definition good (t : ctree) (it : qitem (C := C)) : Prop :=
    treach v t (q_node it) /\ forall s, In s (q_sat it) -> v s = true.

  Definition complete_t (t : ctree) (queue : list (qitem (C := C))) : Prop :=
    forall j c i, nth_error cs j = Some (c, i) -> v c = true ->
      (exists n, treach v t n /\ labelled t i n)
      \/ (exists it, In it queue /\ good t it /\ q_next it <= j).

  Lemma item_ok_grows t t' it : grows t t' -> item_ok t it -> item_ok t' it.
  Proof.
    intros [L [R B]] [H1 [H2 H3]]. split; [lia|]. split; auto.
    intros Hr. apply H3. now apply R.
  Qed.

  Lemma good_grows t t' it : grows t t' -> q_node it < length (ct_nodes t) -> good t it -> good t' it.
  Proof. intros [L [R B]] Hn [G1 G2]. split; auto. now apply R. Qed.

  Lemma sound_add_index (t t' : ctree) n c i :
    sound_t t -> add_index t n i = Ok t' -> In (c, i) cs -> (treach v t n -> v c = true) -> sound_t t'.
  Proof.
    intros S A Hin Hv m j Hl. destruct (add_index_grows _ _ _ _ A) as [_ [_ [_ Hback]]].
    assert (R : forall m, treach v t' m <-> treach v t m) by (intros m0; exact (add_index_treach _ _ _ _ m0 A)).
    destruct (Hback _ _ Hl) as [Hold|[-> ->]].
    - destruct (S _ _ Hold) as [c0 [Hc0 Hv0]]. exists c0. split; auto. intros Hr. apply Hv0. now apply R.
    - exists c. split; auto. intros Hr. apply Hv. now apply R.
  Qed.

  (** ** add_implied *)
  Lemma add_implied_spec fuel : forall t node sat next t' sat' next' oc,
    add_implied conditioned fuel cs t node sat next = Ok (t', sat', next', oc) ->
    wft t -> sound_t t -> node < length (ct_nodes t) -> incl sat (map fst cs) ->
    (treach v t node -> forall s, In s sat -> v s = true) ->
    wft t' /\ sound_t t' /\ grows t t' /\ length (ct_nodes t') = length (ct_nodes t)
    /\ incl sat' (map fst cs)
    /\ (treach v t node -> (forall s, In s sat -> v s = true) -> forall s, In s sat' -> v s = true)
    /\ next <= next'
    /\ (forall j c i, next <= j < next' -> nth_error cs j = Some (c, i) -> labelled t' i node)
    /\ match oc with
       | None => length cs <= next'
       | Some c' => exists c i, nth_error cs next' = Some (c, i) /\ conditioned c sat' = Some c'
       end.
  Proof.
    induction fuel as [|f IH]; intros t node sat next t' sat' next' oc A W S Hn Hs Hv; cbn in A; [discriminate|].
    destruct (nth_error cs next) as [[c ci]|] eqn:Hc.
    - destruct (conditioned c sat) as [c'|] eqn:Cd.
      + inversion A; subst.
        split; [exact W|]. split; [exact S|]. split; [apply grows_refl|]. split; [reflexivity|].
        split; [exact Hs|]. split; [intros _ Hall; exact Hall|]. split; [lia|].
        split; [intros j c0 i Hj; lia|]. exists c, ci. auto.
      + destruct (add_index t node ci) as [t1| |] eqn:A1; cbn in A; try discriminate.
        assert (Hcin : In (c, ci) cs) by (eapply nth_error_In; eauto).
        assert (Hcm : In c (map fst cs)) by (apply in_map_iff; exists (c, ci); auto).
        assert (Himp : treach v t node -> v c = true).
        { intros Hr. pose proof (cond_equiv c sat Hcm Hs (Hv Hr)) as E. now rewrite Cd in E. }
        destruct (add_index_grows _ _ _ _ A1) as [G1 [Lb1 [Len1 _]]].
        pose proof (add_index_wft _ _ _ _ A1 W) as W1.
        pose proof (sound_add_index _ _ _ _ _ S A1 Hcin Himp) as S1.
        assert (R1 : forall m, treach v t1 m <-> treach v t m) by (intros m0; exact (add_index_treach _ _ _ _ m0 A1)).
        destruct (IH _ _ _ _ _ _ _ _ A W1 S1 ltac:(lia)
                    ltac:(intros x Hx; apply in_app_or in Hx as [Hx|[<-|[]]]; auto)
                    ltac:(intros Hr s Hs'; apply in_app_or in Hs' as [Hs'|[<-|[]]];
                          [apply Hv; [now apply R1|exact Hs']|apply Himp; now apply R1]))
          as [W' [S' [G' [Len' [Inc' [Tr' [Le' [Lab' Oc']]]]]]]].
        split; [exact W'|]. split; [exact S'|]. split; [eapply grows_trans; eauto|].
        split; [lia|]. split; [exact Inc'|]. split.
        * intros Hr Hall s Hs'. apply Tr'; [now apply R1| |exact Hs'].
          intros s0 Hs0. apply in_app_or in Hs0 as [Hs0|[<-|[]]]; auto.
        * split; [lia|]. split; [|exact Oc'].
          intros j c0 i [Hj1 Hj2] Hj. destruct (Nat.eq_dec j next) as [->|Hne].
          -- rewrite Hc in Hj. inversion Hj; subst. destruct G' as [_ [_ B]]. apply B. exact Lb1.
          -- apply (Lab' j c0 i); [lia|exact Hj].
    - inversion A; subst.
      split; [exact W|]. split; [exact S|]. split; [apply grows_refl|]. split; [reflexivity|].
      split; [exact Hs|]. split; [intros _ Hall; exact Hall|]. split; [lia|].
      split; [intros j c0 i Hj; lia|]. apply nth_error_None. exact Hc.
  Qed.

  (** ** get_or_add_child inside the loop *)
  Lemma child_step (t1 t2 : ctree) node c' k :
    wft t1 -> sound_t t1 -> node < length (ct_nodes t1) ->
    get_or_add_child ceqb t1 node c' = Ok (t2, k) ->
    wft t2 /\ sound_t t2 /\ grows t1 t2 /\ k < length (ct_nodes t2)
    /\ (treach v t2 k <-> (treach v t1 node /\ v c' = true)).
  Proof.
    intros W S Hn G.
    destruct (get_or_add_child_spec _ _ _ _ _ _ G) as [nd [Hnd [Hd [[Et [c'' [Hin Heq]]]|N]]]].
    - subst t2. destruct W as [W1 [W2 W3]]. destruct (W1 _ _ _ _ Hnd Hin) as [Hk1 Hk2].
      split; [exact (conj W1 (conj W2 W3))|]. split; [exact S|]. split; [apply grows_refl|]. split; [exact Hk2|].
      rewrite <- (ceqb_v _ _ Heq). split.
      + intros Hr. eapply treach_inv; eauto. exact (conj W1 (conj W2 W3)).
      + intros [Hr Hv]. eapply tr_child; eauto.
    - destruct N as [Ek [Hnone [Hlen [Hroot' [Hnew Hoth]]]]].
      destruct (fresh_child_facts t1 t2 node c' k nd W Hnd Ek Hlen Hroot' Hnew Hoth) as [W2 [R2 RK]].
      assert (Hlab : forall i n, labelled t2 i n -> labelled t1 i n).
      { intros i n [ndn [Hn' Hi]]. destruct (Nat.eq_dec n node) as [->|Hne].
        - rewrite Hroot' in Hn'. inversion Hn'; subst. exists nd. auto.
        - destruct (Nat.eq_dec n k) as [->|Hnk].
          + rewrite Hnew in Hn'. inversion Hn'; subst. destruct Hi.
          + exists ndn. rewrite <- Hoth; auto. }
      split; [exact W2|]. split.
      + intros n i Hl. pose proof (Hlab _ _ Hl) as Hl1. destruct (S _ _ Hl1) as [c0 [Hc0 Hv0]].
        exists c0. split; auto. intros Hr. apply Hv0. apply R2; auto.
        destruct Hl1 as [x [Hx _]]. apply nth_error_Some. congruence.
      + split.
        * split; [lia|]. split; [exact R2|].
          intros i n [ndn [Hn' Hi]]. destruct (Nat.eq_dec n node) as [->|Hne].
          -- rewrite Hnd in Hn'. inversion Hn'; subst. eexists. split; [exact Hroot'|]. exact Hi.
          -- exists ndn. rewrite Hoth; auto.
             intros ->. assert (length (ct_nodes t1) < length (ct_nodes t1)) by (apply nth_error_Some; congruence). lia.
        * split; [lia|exact RK].
  Qed.

  Lemma labelled_lt (t : ctree) i n : labelled t i n -> n < length (ct_nodes t).
  Proof. intros [nd [Hn _]]. apply nth_error_Some. congruence. Qed.

  Lemma grows_down t t' m : grows t t' -> m < length (ct_nodes t) -> treach v t' m -> treach v t m.
  Proof. intros [_ [R _]] Hm Hr. now apply R. Qed.
  Lemma grows_up t t' m : grows t t' -> m < length (ct_nodes t) -> treach v t m -> treach v t' m.
  Proof. intros [_ [R _]] Hm Hr. now apply R. Qed.
  Lemma grows_lab t t' i n : grows t t' -> labelled t i n -> labelled t' i n.
  Proof. intros [_ [_ B]]. apply B. Qed.
  Lemma grows_len t t' : grows t t' -> length (ct_nodes t) <= length (ct_nodes t').
  Proof. intros [L _]. exact L. Qed.

  (** ** the main loop *)
  Theorem powerset_loop_spec : forall fuel t queue T,
    powerset_loop ceqb conditioned fuel cs t queue = Ok T ->
    wft t -> sound_t t -> Forall (item_ok t) queue -> complete_t t queue ->
    wft T /\ sound_t T /\ complete_t T [] /\ grows t T.
  Proof.
    induction fuel as [|f IH]; intros t queue T P W Sd Q Cp; cbn [powerset_loop] in P; [discriminate|].
    destruct queue as [|it q].
    - inversion P; subst. split; auto. split; auto. split; auto. apply grows_refl.
    - inversion Q as [|x l Hit Hq]; subst. destruct Hit as [Hn [Hs Hv]].
      destruct (add_implied conditioned (S (length cs)) cs t (q_node it) (q_sat it) (q_next it))
        as [[[[t1 sat] next] oc]| |] eqn:A; cbn [rbind] in P; try discriminate.
      destruct (add_implied_spec _ _ _ _ _ _ _ _ _ A W Sd Hn Hs Hv)
        as [W1 [S1 [G1 [Len1 [Inc1 [Tr1 [Le1 [Lab1 Oc1]]]]]]]].
      assert (Hq1 : Forall (item_ok t1) q).
      { apply Forall_forall. intros x Hx. eapply item_ok_grows; eauto. rewrite Forall_forall in Hq. auto. }
      assert (Hn1 : q_node it < length (ct_nodes t1)) by lia.
      (* reaching the node (in t1) makes everything in sat true *)
      assert (Hsat1 : treach v t1 (q_node it) -> forall s, In s sat -> v s = true).
      { intros Hr. pose proof (grows_down _ _ _ G1 Hn Hr) as Hr0. apply Tr1; auto. }
      assert (Hgood : good t it -> treach v t1 (q_node it) /\ forall s, In s sat -> v s = true).
      { intros [Hr Hall]. split; [eapply grows_up; eauto|]. apply Tr1; auto. }
      destruct oc as [c'|].
      + (* a constraint that is not implied: skip / take *)
        destruct Oc1 as [c [ci [Hc Cd]]].
        destruct (get_or_add_child ceqb t1 (q_node it) c') as [[t2 k]| |] eqn:G; cbn [rbind fst snd] in P; try discriminate.
        rewrite Hc in P.
        destruct (add_index t2 k ci) as [t3| |] eqn:A3; cbn [rbind] in P; try discriminate.
        destruct (child_step _ _ _ _ _ W1 S1 Hn1 G) as [W2 [S2 [G2 [Hk RK]]]].
        assert (Hcin : In (c, ci) cs) by (eapply nth_error_In; eauto).
        assert (Hcm : In c (map fst cs)) by (apply in_map_iff; exists (c, ci); auto).
        assert (Hcc : (forall s, In s sat -> v s = true) -> v c' = v c).
        { intros Hsat. pose proof (cond_equiv c sat Hcm Inc1 Hsat) as E. now rewrite Cd in E. }
        (* reaching the child means: everything in sat and c are true *)
        assert (Hchild : treach v t2 k -> (forall s, In s sat -> v s = true) /\ v c = true).
        { intros Hr. apply RK in Hr as [Hr Hv']. pose proof (Hsat1 Hr) as Hsat. split; auto.
          rewrite <- (Hcc Hsat). exact Hv'. }
        destruct (add_index_grows _ _ _ _ A3) as [G3 [Lb3 [Len3 _]]].
        pose proof (add_index_wft _ _ _ _ A3 W2) as W3.
        assert (S3 : sound_t t3).
        { eapply sound_add_index; eauto. intros Hr. now apply Hchild. }
        assert (R3 : forall m, treach v t3 m <-> treach v t2 m) by (intros m0; exact (add_index_treach _ _ _ _ m0 A3)).
        assert (G13 : grows t1 t3) by (eapply grows_trans; eauto).
        assert (G03 : grows t t3) by (eapply grows_trans; eauto).
        set (skip := {| q_next := S next; q_sat := sat; q_node := q_node it |}).
        set (take := {| q_next := S next; q_sat := sat ++ [c]; q_node := k |}).
        assert (Hskip : item_ok t3 skip).
        { split; [cbn; pose proof (grows_len _ _ G13); lia|]. split; [exact Inc1|]. cbn. intros Hr.
          apply Hsat1. eapply grows_down; eauto. }
        assert (Htake : item_ok t3 take).
        { split; [cbn; lia|]. split.
          - cbn. intros x Hx. apply in_app_or in Hx as [Hx|[<-|[]]]; auto.
          - cbn. intros Hr s Hs'. apply R3 in Hr. destruct (Hchild Hr) as [H1 H2].
            apply in_app_or in Hs' as [Hs'|[<-|[]]]; auto. }
        destruct (IH _ _ _ P W3 S3) as [WT [ST [CT GT]]].
        * apply Forall_app. split.
          -- apply Forall_forall. intros x Hx. eapply item_ok_grows; [exact G13|]. rewrite Forall_forall in Hq1. auto.
          -- constructor; [exact Hskip|]. constructor; [exact Htake|constructor].
        * (* completeness invariant *)
          intros j c0 i0 Hj Hv0. destruct (Cp j c0 i0 Hj Hv0) as [[n [Hr Hl]]|[it0 [Hin0 [Hg0 Hle0]]]].
          -- left. exists n. split.
             ++ eapply (grows_up t t3); [exact G03|eapply labelled_lt; eauto|exact Hr].
             ++ eapply grows_lab; [exact G03|exact Hl].
          -- destruct Hin0 as [<-|Hin0].
             ++ destruct (Hgood Hg0) as [Hr1 Hsat].
                destruct (Nat.lt_ge_cases j next) as [Hlt|Hge].
                ** left. exists (q_node it). split.
                   --- eapply (grows_up t1 t3); [exact G13|exact Hn1|exact Hr1].
                   --- eapply grows_lab; [exact G13|]. eapply Lab1; eauto.
                ** destruct (Nat.eq_dec j next) as [->|Hne].
                   --- rewrite Hc in Hj. inversion Hj; subst c0 i0.
                       left. exists k. split; [|exact Lb3].
                       apply R3. apply RK. split; [exact Hr1|]. rewrite (Hcc Hsat). exact Hv0.
                   --- destruct (v c) eqn:Vc.
                       +++ right. exists take. split; [apply in_or_app; right; right; now left|]. split; [|cbn; lia].
                           split; cbn.
                           *** apply R3. apply RK. split; [exact Hr1|exact (Hcc Hsat)].
                           *** intros s Hs'. apply in_app_or in Hs' as [Hs'|[<-|[]]]; auto.
                       +++ right. exists skip. split; [apply in_or_app; right; now left|]. split; [|cbn; lia].
                           split; cbn; [eapply (grows_up t1 t3); [exact G13|exact Hn1|exact Hr1]|exact Hsat].
             ++ right. exists it0. split; [apply in_or_app; now left|]. split; [|exact Hle0].
                rewrite Forall_forall in Hq. destruct (Hq _ Hin0) as [Hn0 _].
                eapply good_grows; eauto.
        * split; [exact WT|]. split; [exact ST|]. split; [exact CT|]. eapply grows_trans; eauto.
      + (* all remaining constraints were implied *)
        destruct (IH _ _ _ P W1 S1 Hq1) as [WT [ST [CT GT]]].
        * intros j c0 i0 Hj Hv0. destruct (Cp j c0 i0 Hj Hv0) as [[n [Hr Hl]]|[it0 [Hin0 [Hg0 Hle0]]]].
          -- left. exists n. split.
             ++ eapply (grows_up t t1); [exact G1|eapply labelled_lt; eauto|exact Hr].
             ++ eapply grows_lab; [exact G1|exact Hl].
          -- destruct Hin0 as [<-|Hin0].
             ++ destruct (Hgood Hg0) as [Hr1 Hsat]. left. exists (q_node it). split; auto.
                eapply Lab1; eauto. split; auto.
                assert (j < length cs) by (apply nth_error_Some; congruence). lia.
             ++ right. exists it0. split; auto. split; auto.
                rewrite Forall_forall in Hq. destruct (Hq _ Hin0) as [Hn0 _].
                eapply good_grows; eauto.
        * split; [exact WT|]. split; [exact ST|]. split; [exact CT|]. eapply grows_trans; eauto.
  Qed.
End Powerset.

(** ** every listed index ends up labelling some node (independent of valuations) *)
Section PowersetLabels.
  Context {C : Type} (ceqb : C -> C -> bool) (conditioned : C -> list C -> option C).
  Notation ctree := (ctree C).
  Variable cs : list (C * nat).

  Definition lab_grows (t t' : ctree) : Prop := forall i, in_tree t i -> in_tree t' i.

  Lemma add_index_labs (t t' : ctree) n i : add_index t n i = Ok t' -> lab_grows t t' /\ in_tree t' i.
  Proof.
    intros A. destruct (add_index_spec _ _ _ _ A) as [nd [Hn [Hn' [Ho _]]]]. split.
    - intros j [m [ndm [Hm Hj]]]. destruct (Nat.eq_dec m n) as [->|Hne].
      + rewrite Hn in Hm. inversion Hm; subst. exists n. eexists. split; [exact Hn'|]. cbn. apply in_or_app. now left.
      + exists m, ndm. rewrite Ho; auto.
    - exists n. eexists. split; [exact Hn'|]. cbn. apply in_or_app. right. now left.
  Qed.

  Lemma child_labs (t t' : ctree) n c k : get_or_add_child ceqb t n c = Ok (t', k) -> lab_grows t t'.
  Proof.
    intros G. destruct (get_or_add_child_spec _ _ _ _ _ _ G) as [nd [Hnd [_ [[-> _]|N]]]]; [intros i; auto|].
    destruct N as [Ek [_ [_ [Hroot' [_ Hoth]]]]].
    intros i [m [ndm [Hm Hi]]]. destruct (Nat.eq_dec m n) as [->|Hne].
    - rewrite Hnd in Hm. inversion Hm; subst. exists n. eexists. split; [exact Hroot'|]. exact Hi.
    - exists m, ndm. rewrite Hoth; auto.
      intros ->. assert (length (ct_nodes t) < length (ct_nodes t)) by (apply nth_error_Some; congruence). lia.
  Qed.

  Lemma add_implied_labs fuel : forall t node sat next t' sat' next' oc,
    add_implied conditioned fuel cs t node sat next = Ok (t', sat', next', oc) ->
    lab_grows t t' /\ next <= next'
    /\ (forall j c i, next <= j < next' -> nth_error cs j = Some (c, i) -> in_tree t' i)
    /\ match oc with None => length cs <= next' | Some _ => exists ci, nth_error cs next' = Some ci end.
  Proof.
    induction fuel as [|f IH]; intros t node sat next t' sat' next' oc A; cbn in A; [discriminate|].
    destruct (nth_error cs next) as [[c ci]|] eqn:Hc.
    - destruct (conditioned c sat) as [c'|].
      + inversion A; subst. split; [intros i; auto|]. split; [lia|]. split; [intros; lia|eauto].
      + destruct (add_index t node ci) as [t1| |] eqn:A1; cbn in A; try discriminate.
        destruct (add_index_labs _ _ _ _ A1) as [G1 L1].
        destruct (IH _ _ _ _ _ _ _ _ A) as [G' [Le' [Lab' Oc']]].
        split; [intros i Hi; auto|]. split; [lia|]. split; [|exact Oc'].
        intros j c0 i [H1 H2] Hj. destruct (Nat.eq_dec j next) as [->|Hne].
        * rewrite Hc in Hj. inversion Hj; subst. auto.
        * apply (Lab' j c0 i); [lia|exact Hj].
    - inversion A; subst. split; [intros i; auto|]. split; [lia|]. split; [intros; lia|].
      now apply nth_error_None.
  Qed.

  Definition covered (t : ctree) (queue : list (qitem (C := C))) : Prop :=
    forall j c i, nth_error cs j = Some (c, i) -> in_tree t i \/ exists it, In it queue /\ q_next it <= j.

  Theorem powerset_loop_labels : forall fuel t queue T,
    powerset_loop ceqb conditioned fuel cs t queue = Ok T -> covered t queue -> covered T [].
  Proof.
    induction fuel as [|f IH]; intros t queue T P Cv; cbn [powerset_loop] in P; [discriminate|].
    destruct queue as [|it q]; [inversion P; subst; exact Cv|].
    destruct (add_implied conditioned (S (length cs)) cs t (q_node it) (q_sat it) (q_next it))
      as [[[[t1 sat] next] oc]| |] eqn:A; cbn [rbind] in P; try discriminate.
    destruct (add_implied_labs _ _ _ _ _ _ _ _ _ A) as [G1 [Le1 [Lab1 Oc1]]].
    destruct oc as [c'|].
    - destruct Oc1 as [[c ci] Hc].
      destruct (get_or_add_child ceqb t1 (q_node it) c') as [[t2 k]| |] eqn:G; cbn [rbind fst snd] in P; try discriminate.
      rewrite Hc in P.
      destruct (add_index t2 k ci) as [t3| |] eqn:A3; cbn [rbind] in P; try discriminate.
      pose proof (child_labs _ _ _ _ _ G) as G2. destruct (add_index_labs _ _ _ _ A3) as [G3 L3].
      apply (IH _ _ _ P). intros j c0 i0 Hj.
      destruct (Cv j c0 i0 Hj) as [Hin|[it0 [[<-|Hin0] Hle]]].
      + left. auto.
      + destruct (Nat.lt_ge_cases j next) as [Hlt|Hge].
        * left. apply G3, G2. eapply Lab1; eauto.
        * destruct (Nat.eq_dec j next) as [->|Hne].
          -- rewrite Hc in Hj. inversion Hj; subst. left. exact L3.
          -- right. eexists. split; [apply in_or_app; right; now left|]. cbn. lia.
      + right. exists it0. split; [apply in_or_app; now left|exact Hle].
    - apply (IH _ _ _ P). intros j c0 i0 Hj.
      destruct (Cv j c0 i0 Hj) as [Hin|[it0 [[<-|Hin0] Hle]]].
      + left. auto.
      + left. eapply Lab1; eauto. split; auto.
        assert (j < length cs) by (apply nth_error_Some; congruence). lia.
      + right. eauto.
  Qed.
End PowersetLabels.

(** ** with_powerset *)
Section WithPowerset.
  Context {C : Type} (ceqb : C -> C -> bool) (conditioned : C -> list C -> option C) (v : C -> bool).
  Variable cs : list (C * nat).
  Variable orig : list C.
  Hypothesis cs_indexed : forall c i, In (c, i) cs -> nth_error orig i = Some c.
  Hypothesis ceqb_v : forall a b, ceqb a b = true -> v a = v b.
  Hypothesis cond_equiv : forall c sat,
    In c (map fst cs) -> incl sat (map fst cs) -> (forall s, In s sat -> v s = true) ->
    match conditioned c sat with None => v c = true | Some c' => v c' = v c end.

  Theorem with_powerset_ok fuel T :
    with_powerset ceqb conditioned fuel cs = Ok T ->
    faithful v T orig /\ valid_indices T (length orig)
    /\ (forall c i, In (c, i) cs -> in_tree T i).
  Proof.
    unfold with_powerset. destruct cs as [|e cs'] eqn:Ecs.
    - intros X. inversion X; subst. split; [|split].
      + intros i [n [nd [Hn Hl]]]. destruct n as [|[|n]]; cbn in Hn; try discriminate. inversion Hn; subst. destruct Hl.
      + intros i [n [nd [Hn Hl]]]. destruct n as [|[|n]]; cbn in Hn; try discriminate. inversion Hn; subst. destruct Hl.
      + intros c i [].
    - rewrite <- Ecs in *. intros P.
      set (t0 := set_make_det (ctree_new (C := C)) true) in P.
      set (it0 := {| q_next := 0; q_sat := @nil C; q_node := 0 |}) in P.
      assert (W0 : wft t0).
      { split; [|split; [|cbn; lia]].
        - intros n nd c k Hn Hin. destruct n as [|[|n]]; cbn in Hn; try discriminate. inversion Hn; subst. destruct Hin.
        - intros n1 nd1 c1 n2 nd2 c2 k H1 I1. destruct n1 as [|[|n1]]; cbn in H1; try discriminate.
          inversion H1; subst. destruct I1. }
      assert (S0 : sound_t v cs t0).
      { intros n i [nd [Hn Hl]]. destruct n as [|[|n]]; cbn in Hn; try discriminate. inversion Hn; subst. destruct Hl. }
      assert (Q0 : Forall (item_ok v cs t0) [it0]).
      { constructor; [|constructor]. split; [cbn; lia|]. split; [intros x []|]. intros _ s []. }
      assert (C0 : complete_t v cs t0 [it0]).
      { intros j c i Hj Hv. right. exists it0. split; [now left|]. split; [|cbn; lia].
        split; [constructor|intros s []]. }
      destruct (powerset_loop_spec ceqb conditioned v cs ceqb_v cond_equiv _ _ _ _ P W0 S0 Q0 C0)
        as [WT [ST [CT _]]].
      assert (LT : covered cs T []).
      { eapply powerset_loop_labels; [exact P|]. intros j c i Hj. right. exists it0. split; [now left|cbn; lia]. }
      assert (Hin_cs : forall i, in_tree T i -> exists c, In (c, i) cs).
      { intros i [n Hl]. destruct (ST _ _ Hl) as [c [Hc _]]. eauto. }
      split; [|split].
      + intros i Hi. destruct (Hin_cs i Hi) as [c Hc]. pose proof (cs_indexed _ _ Hc) as Ho. split.
        * intros [n [Hr Hl]]. destruct (ST _ _ Hl) as [c1 [Hc1 Hv1]].
          rewrite (cs_indexed _ _ Hc1) in Ho. inversion Ho; subst c1. exists c. split; [exact (cs_indexed _ _ Hc)|auto].
        * intros [c1 [Hc1 Hv1]]. rewrite Ho in Hc1. inversion Hc1; subst c1.
          destruct (In_nth_error _ _ Hc) as [j Hj].
          destruct (CT j c i Hj Hv1) as [H|[it [[] _]]]. exact H.
      + intros i Hi. destruct (Hin_cs i Hi) as [c Hc]. apply nth_error_Some. rewrite (cs_indexed _ _ Hc). discriminate.
      + intros c i Hc. destruct (In_nth_error _ _ Hc) as [j Hj].
        destruct (LT j c i Hj) as [H|[it [[] _]]]. exact H.
  Qed.
End WithPowerset.
