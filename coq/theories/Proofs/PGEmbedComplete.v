(** Port graphs: the generated constraint vector is complete for embeddings: an
    injective, link-preserving map of the keyed pattern nodes into a well-formed
    host makes every constraint true under the binding map it induces.  (With
    c02_portgraph_partial: every embedding is accepted in the abstract semantics
    of a certified automaton; what the concrete traversal then misses is due to
    the host-side indexing — the known classes.) *)
From PM Require Import Model.Prelude Model.Domain Model.Constraint Model.BindMaps Model.DomString
  Model.DomPGKeys Model.DomPG Model.DomPGPattern Cert.PGCert Proofs.PGTreeProofs Proofs.PGLawful Proofs.PGComplete Proofs.PGEmbed.
Local Open Scope N_scope.

Definition pg_host_wf (h : pghost) : Prop :=
  (forall a oa b ib, In (a, oa, b, ib) (pg_links h) -> has_port h a (POut oa) = true /\ has_port h b (PIn ib) = true)
  /\ (forall a oa b ib b' ib', In (a, oa, b, ib) (pg_links h) -> In (a, oa, b', ib') (pg_links h) -> b = b' /\ ib = ib')
  /\ (forall a oa b ib a' oa', In (a, oa, b, ib) (pg_links h) -> In (a', oa', b, ib) (pg_links h) -> a = a' /\ oa = oa').

Lemma nodup_key_inj {X Y} (eqb : Y -> Y -> bool) (spec : forall a b, eqb a b = true <-> a = b) (key : X -> Y) l x y :
  nodupb eqb (map key l) = true -> In x l -> In y l -> key x = key y -> x = y.
Proof.
  intros Hn. apply (nodupb_NoDup eqb spec) in Hn. induction l as [|z l IH]; intros Hx Hy E; [destruct Hx|].
  cbn in Hn. inversion Hn as [|? ? Hni Hnd]; subst. destruct Hx as [->|Hx], Hy as [->|Hy]; auto.
  - exfalso. apply Hni. rewrite E. now apply in_map.
  - exfalso. apply Hni. rewrite <- E. now apply in_map.
Qed.

Lemma pair_eqb_spec (a b : N * N) : N.eqb (fst a) (fst b) && N.eqb (snd a) (snd b) = true <-> a = b.
Proof.
  destruct a, b. cbn. rewrite andb_true_iff, !N.eqb_eq. split; [intros [-> ->]; reflexivity|intros E; inversion E; auto].
Qed.

Lemma pg_host_wfb_sound h : pg_host_wfb h = true -> pg_host_wf h.
Proof.
  unfold pg_host_wfb. intros Hb. apply andb_true_iff in Hb as [Hb H3]. apply andb_true_iff in Hb as [H1 H2].
  rewrite forallb_forall in H1. split; [|split].
  - intros a oa b ib Hin. specialize (H1 _ Hin). cbn in H1. now apply andb_true_iff in H1.
  - intros a oa b ib b' ib' I1 I2.
    pose proof (nodup_key_inj _ pair_eqb_spec (fun l : N * N * N * N => let '(a0, oa0, _, _) := l in (a0, oa0)) _ _ _ H2 I1 I2 eq_refl) as E.
    inversion E. auto.
  - intros a oa b ib a' oa' I1 I2.
    pose proof (nodup_key_inj _ pair_eqb_spec (fun l : N * N * N * N => let '(_, _, b0, ib0) := l in (b0, ib0)) _ _ _ H3 I1 I2 eq_refl) as E.
    inversion E. auto.
Qed.

Lemma has_edge_of_link h a oa b ib : pg_host_wf h -> In (a, oa, b, ib) (pg_links h) ->
  has_edge h a (POut oa) b (PIn ib) = true /\ has_edge h b (PIn ib) a (POut oa) = true.
Proof.
  intros [W1 [W2 W3]] Hin. destruct (W1 _ _ _ _ Hin) as [P1 P2]. unfold has_edge. rewrite P1, P2. cbn [andb port_link]. split.
  - destruct (find _ (pg_links h)) as [[[[a' oa'] b'] ib']|] eqn:F.
    + apply find_some in F as [Hin' Hf]. apply andb_true_iff in Hf as [E1 E2]. apply N.eqb_eq in E1, E2. subst.
      destruct (W2 _ _ _ _ _ _ Hin Hin') as [-> ->]. rewrite N.eqb_refl. unfold pgport_eqb. cbn. now rewrite N.compare_refl.
    + exfalso. pose proof (find_none _ _ F _ Hin) as C. cbn in C. rewrite !N.eqb_refl in C. discriminate.
  - destruct (find _ (pg_links h)) as [[[[a' oa'] b'] ib']|] eqn:F.
    + apply find_some in F as [Hin' Hf]. apply andb_true_iff in Hf as [E1 E2]. apply N.eqb_eq in E1, E2. subst.
      destruct (W3 _ _ _ _ _ _ Hin Hin') as [-> ->]. rewrite N.eqb_refl. unfold pgport_eqb. cbn. now rewrite N.compare_refl.
    + exfalso. pose proof (find_none _ _ F _ Hin) as C. cbn in C. rewrite !N.eqb_refl in C. discriminate.
Qed.

Section Complete.
  Variable P : pghost.
  Variable H : pghost.
  Hypothesis HW : pg_host_wf H.
  Variable f : N -> N.
  (** [f] preserves the links of the pattern *)
  Hypothesis Hlinks : forall a oa b ib, In (a, oa, b, ib) (pg_links P) -> In (f a, oa, f b, ib) (pg_links H).
  Variable M : pgmap.
  Variable nkf : list (N * pgkey).
  (** the final key assignment, read through [M] *)
  Hypothesis HM : forall u k, In (u, k) nkf -> pgget M k = Some (f u).
  (** [f] is injective on the keyed nodes *)
  Hypothesis Hinj : forall u k u' k', In (u, k) nkf -> In (u', k') nkf -> u <> u' -> f u <> f u'.

  Lemma nk_get_in nk u k : nk_get nk u = Some k -> In (u, k) nk.
  Proof.
    induction nk as [|[n' k'] r IH]; cbn; [discriminate|]. destruct (N.eqb_spec u n') as [->|].
    - intros E. inversion E; subst. now left.
    - intros E. right. auto.
  Qed.

  Lemma nk_get_none_notin nk u : nk_get nk u = None -> forall k, ~ In (u, k) nk.
  Proof.
    induction nk as [|[n' k'] r IH]; cbn; [intros _ k []|]. destruct (N.eqb_spec u n') as [->|Hne]; [discriminate|].
    intros E k [Eq|Hin]; [inversion Eq; subst; contradiction|eapply IH; eauto].
  Qed.

  Lemma is_link_host l : is_link P l = true -> host_link H (f (fst (fst l)), snd (fst l)) (f (fst (snd l)), snd (snd l))
                                              /\ has_edge H (f (fst (fst l))) (snd (fst l)) (f (fst (snd l))) (snd (snd l)) = true.
  Proof.
    unfold is_link, host_link. destruct l as [[ln lp] [rn rp]]. cbn [fst snd].
    destruct lp as [i|o], rp as [i'|o']; try discriminate; intros He; apply existsb_exists in He as [[[[a oa] b] ib] [Hin Hx]];
      apply andb_true_iff in Hx as [Hx E4]; apply andb_true_iff in Hx as [Hx E3]; apply andb_true_iff in Hx as [E1 E2];
      apply N.eqb_eq in E1, E2, E3, E4; subst; pose proof (Hlinks _ _ _ _ Hin) as HL;
      destruct (has_edge_of_link H _ _ _ _ HW HL); auto.
  Qed.

  Lemma line_constraints_sat line : forall i ri ro nk cs nk',
    line_constraints line i ri ro nk = Ok (cs, nk') ->
    (forall l, In l line -> is_link P l = true) ->
    (forall e, In e nk' -> In e nkf) ->
    (forall e, In e nk -> In e nk') /\ forall c, In c cs -> pgval H M c = true.
  Proof.
    induction line as [|[lport rport] rest IH]; intros i ri ro nk cs nk' LC Hl Hsub; cbn [line_constraints] in LC.
    - inversion LC; subst. split; [auto|intros c []].
    - destruct (nk_get nk (fst lport)) as [left_key|] eqn:Gl; [|discriminate].
      destruct (is_link_host (lport, rport) (Hl _ (or_introl eq_refl))) as [_ Hedge]. cbn [fst snd] in Hedge.
      assert (Hconn : forall rk nkx, (forall e, In e nkx -> In e nkf) -> In (fst lport, left_key) nkx -> In (fst rport, rk) nkx ->
                pgval H M (mk (IsConnected (snd lport) (snd rport)) [left_key; rk]) = true).
      { intros rk nkx Hs I1 I2. unfold pgval. cbn [cargs cpred mk resolve_args]. change (mget pg_dom M) with (pgget M).
        rewrite (HM _ _ (Hs _ I1)), (HM _ _ (Hs _ I2)). cbn [pg_check]. now rewrite Hedge. }
      destruct (nk_get nk (fst rport)) as [rk0|] eqn:Gr.
      + destruct (line_constraints rest (i + 1) ri ro nk) as [[cs1 nk1]| |] eqn:R1; cbn [rbind] in LC; try discriminate.
        cbn [app fst snd] in LC. injection LC as Ecs Enk. subst cs nk'.
        destruct (IH _ _ _ _ _ _ R1 (fun l Hin => Hl l (or_intror Hin)) Hsub) as [S1 C1]. split; auto.
        intros c [<-|Hc]; [|auto]. apply (Hconn rk0 nk1 Hsub); apply S1; now apply nk_get_in.
      + set (key := AlongPath ri ro (i + 1)) in LC.
        destruct (line_constraints rest (i + 1) ri ro (nk ++ [(fst rport, key)])) as [[cs1 nk1]| |] eqn:R1; cbn [rbind] in LC; try discriminate.
        cbn [app fst snd] in LC. injection LC as Ecs Enk. subst cs nk'.
        destruct (IH _ _ _ _ _ _ R1 (fun l Hin => Hl l (or_intror Hin)) Hsub) as [S1 C1].
        assert (Snk : forall e, In e nk -> In e nk1) by (intros e He; apply S1; apply in_or_app; now left).
        assert (Inew : In (fst rport, key) nk1) by (apply S1; apply in_or_app; right; now left).
        split; auto.
        intros c [<-|[<-|Hc]]; [| |auto].
        * (* the fresh key differs from all earlier ones *)
          unfold pgval. cbn [cargs cpred mk].
          assert (Hres : resolve_args pg_dom M (key :: map snd nk) = inr (f (fst rport) :: map (fun e => f (fst e)) nk)).
          { apply resolve_cons_inr. exists (f (fst rport)), (map (fun e => f (fst e)) nk). split; [apply (HM _ _ (Hsub _ Inew))|]. split; auto.
            assert (G : forall l, (forall e, In e l -> In e nk) -> resolve_args pg_dom M (map snd l) = inr (map (fun e => f (fst e)) l)).
            { induction l as [|[u k] l IHl]; intros Hs; [reflexivity|]. cbn [map]. apply resolve_cons_inr.
              exists (f u), (map (fun e => f (fst e)) l). split; [apply (HM u k); apply Hsub; apply Snk; apply Hs; now left|].
              split; auto. apply IHl. intros e He. apply Hs. now right. }
            apply G. auto. }
          rewrite Hres. cbn [pg_check].
          destruct (nmem (f (fst rport)) (map (fun e => f (fst e)) nk)) eqn:Em; [|reflexivity]. exfalso.
          apply (memb_in N.eqb N.eqb_eq) in Em. apply in_map_iff in Em as [[u k] [Ef Hin]]. cbn [fst] in Ef.
          assert (Hne : u <> fst rport).
          { intros ->. eapply nk_get_none_notin; eauto. }
          apply (Hinj u k (fst rport) key (Hsub _ (Snk _ Hin)) (Hsub _ Inew) Hne). exact Ef.
        * apply (Hconn key nk1 Hsub); [apply Snk; now apply nk_get_in|exact Inew].
  Qed.

  Lemma lines_constraints_sat lines : forall nk nr cs nk',
    lines_constraints lines nk nr = Ok (cs, nk') ->
    (forall l, In l (concat lines) -> is_link P l = true) ->
    (forall e, In e nk' -> In e nkf) ->
    (forall e, In e nk -> In e nk') /\ forall c, In c cs -> pgval H M c = true.
  Proof.
    induction lines as [|line rest IH]; intros nk nr cs nk' LC Hl Hsub; cbn [lines_constraints] in LC.
    - inversion LC; subst. split; [auto|intros c []].
    - destruct line as [|first line'].
      + cbn [concat app] in Hl. eapply IH; eauto.
      + destruct (match ni_get nr (fst (fst first)) with
                  | Some i => (i, nr)
                  | None => (N.of_nat (length nr), nr ++ [(fst (fst first), N.of_nat (length nr))])
                  end) as [ri nr'] eqn:Er.
        destruct (line_constraints (first :: line') 0 ri (snd (fst first)) nk) as [[cs1 nk1]| |] eqn:R1; cbn [rbind] in LC; try discriminate.
        cbn [snd] in LC.
        destruct (lines_constraints rest nk1 nr') as [[cs2 nk2]| |] eqn:R2; cbn [rbind] in LC; try discriminate.
        cbn [fst snd] in LC. injection LC as Ecs Enk. subst cs nk'.
        cbn [concat] in Hl.
        destruct (IH _ _ _ _ R2 (fun l Hin => Hl l (in_or_app _ _ _ (or_intror Hin))) Hsub) as [S2 C2].
        destruct (line_constraints_sat _ _ _ _ _ _ _ R1 (fun l Hin => Hl l (in_or_app _ _ _ (or_introl Hin))) (fun e He => Hsub e (S2 e He))) as [S1 C1].
        split; [intros e He; apply S2; now apply S1|].
        intros c Hc. apply in_app_or in Hc as [Hc|Hc]; auto.
  Qed.
End Complete.

Definition bind_of (f : N -> N) (nk : list (N * pgkey)) : pgmap := map (fun e => (snd e, f (fst e))) nk.

Lemma pgget_bind_of f nk u k : NoDup (map snd nk) -> In (u, k) nk -> pgget (bind_of f nk) k = Some (f u).
Proof.
  unfold pgget, bind_of. induction nk as [|[u' k'] r IH]; intros Hn Hin; [destruct Hin|]. cbn [map aget fst snd].
  cbn in Hn. inversion Hn as [|? ? Hni Hnd]; subst. destruct Hin as [E|Hin].
  - inversion E; subst. now rewrite (proj2 (pgkey_eqb_eq k k) eq_refl).
  - destruct (pgkey_eqb k k') eqn:Ek; [|auto]. apply pgkey_eqb_eq in Ek. subst k'.
    exfalso. apply Hni. apply in_map_iff. exists (u, k). auto.
Qed.

(** every embedding satisfies the constraint vector of its pattern *)
Theorem pg_embedding_satisfies (P : pghost) (root : N) (H : pghost) (f : N -> N) cs nk :
  pg_cvec_full P root = Ok (cs, nk) -> lines_sound P root = true -> keys_distinct nk = true ->
  pg_host_wfb H = true ->
  (forall a oa b ib, In (a, oa, b, ib) (pg_links P) -> In (f a, oa, f b, ib) (pg_links H)) ->
  (forall u k u' k', In (u, k) nk -> In (u', k') nk -> u <> u' -> f u <> f u') ->
  forall c, In c cs -> pgval H (bind_of f nk) c = true.
Proof.
  intros CV Hls Hkd Hwf Hlinks Hinj.
  apply pg_host_wfb_sound in Hwf. unfold keys_distinct in Hkd. apply andb_true_iff in Hkd as [Hk1 _].
  apply (nodupb_NoDup pgkey_eqb pgkey_eqb_eq) in Hk1.
  assert (HM : forall u k, In (u, k) nk -> pgget (bind_of f nk) k = Some (f u)) by (intros u k Hin; now apply pgget_bind_of).
  unfold pg_cvec_full in CV. destruct (pg_links P) as [|l0 ls] eqn:El.
  - inversion CV; subst. intros c [<-|[]]. reflexivity.
  - destruct (lines_constraints (line_partition P root) [(root, PathRoot 0)] [(root, 0)]) as [[cs0 nk0]| |] eqn:LC; cbn [rbind] in CV; try discriminate.
    assert (Enk : nk = nk0) by (cbn [fst snd] in CV; destruct cs0; inversion CV; reflexivity). subst nk0.
    rewrite <- El in Hlinks.
    unfold lines_sound in Hls. rewrite forallb_forall in Hls.
    destruct (lines_constraints_sat P H Hwf f Hlinks (bind_of f nk) nk HM Hinj _ _ _ _ _ LC Hls (fun e He => He)) as [S0 C0].
    cbn [fst] in CV. destruct cs0 as [|c0 cs0'].
    + inversion CV; subst. intros c [<-|[]]. unfold pgval. cbn [cargs cpred mk resolve_args]. change (mget pg_dom (bind_of f nk)) with (pgget (bind_of f nk)).
      rewrite (HM root (PathRoot 0)); [reflexivity|]. apply S0. now left.
    + inversion CV; subst. exact C0.
Qed.
