(** C11 on the specification: a pattern occurs in its own instantiation, and
    occurrences survive host extensions (strings: characters appended or
    prepended; matrices: rows appended/prepended, characters appended to rows,
    the same number of characters prepended to every row). *)
From PM Require Import Model.Prelude Model.DomString Model.DomMatrix Spec.Occ.
Local Open Scope N_scope.

(** ** strings *)
Definition s_inst (sigma : N -> N) (p : spattern) : shost :=
  map (fun cv => match cv with Lit l => l | Var x => sigma x end) p.

Lemma s_cells_nth p : forall i k cv, In (k, cv) (s_cells p i) ->
  i <= k /\ nth_error p (N.to_nat (k - i)) = Some cv.
Proof.
  induction p as [|c p IH]; intros i k cv Hin; cbn in Hin; [destruct Hin|].
  destruct Hin as [E|Hin].
  - inversion E; subst. split; [lia|]. rewrite N.sub_diag. reflexivity.
  - destruct (IH _ _ _ Hin) as [Hle Hn]. split; [lia|].
    replace (N.to_nat (k - i)) with (S (N.to_nat (k - (i + 1)))) by lia. exact Hn.
Qed.

Theorem occ_string_self sigma p : occ_string p (s_inst sigma p) 0.
Proof.
  exists sigma. intros [k cv] Hin. destruct (s_cells_nth _ _ _ _ Hin) as [_ Hn].
  rewrite N.sub_0_r in Hn.
  exists (match cv with Lit l => l | Var x => sigma x end). cbn. split.
  - unfold s_char_of, char_at, s_inst. rewrite N.add_0_l. rewrite nth_error_map, Hn. reflexivity.
  - destruct cv; reflexivity.
Qed.

Theorem occ_string_app_r p h t a : occ_string p h a -> occ_string p (h ++ t) a.
Proof.
  intros [env Hall]. exists env. intros kc Hin. destruct (Hall kc Hin) as [ch [Ck Hv]].
  exists ch. split; auto. unfold s_char_of, char_at in *.
  rewrite nth_error_app1; auto. apply nth_error_Some. congruence.
Qed.

Theorem occ_string_app_l p h t a :
  occ_string p h a -> occ_string p (t ++ h) (a + N.of_nat (length t)).
Proof.
  intros [env Hall]. exists env. intros kc Hin. destruct (Hall kc Hin) as [ch [Ck Hv]].
  exists ch. split; auto. unfold s_char_of, char_at in *.
  rewrite nth_error_app2 by lia.
  replace (N.to_nat (a + N.of_nat (length t) + fst kc) - length t)%nat with (N.to_nat (a + fst kc)) by lia.
  exact Ck.
Qed.

(** any sequence of appends and prepends: the anchor shifts by the number of
    prepended characters *)
Inductive s_ext : shost -> N -> shost -> N -> Prop :=
| se_refl h a : s_ext h a h a
| se_append h a h' a' t : s_ext h a h' a' -> s_ext h a (h' ++ t) a'
| se_prepend h a h' a' t : s_ext h a h' a' -> s_ext h a (t ++ h') (a' + N.of_nat (length t)).

Theorem occ_string_ext p h a h' a' : s_ext h a h' a' -> occ_string p h a -> occ_string p h' a'.
Proof.
  induction 1 as [| h a h' a' t _ IH | h a h' a' t _ IH]; intros Ho; auto.
  - apply occ_string_app_r. auto.
  - apply occ_string_app_l. auto.
Qed.

(** ** matrices *)
Local Open Scope Z_scope.

Lemma m_char_of_pos h a k :
  m_char_of h a k =
  (if (Z.of_N (fst a) + fst k <? 0) || (Z.of_N (snd a) + snd k <? 0) then None
   else cell_at h (Z.to_N (Z.of_N (fst a) + fst k), Z.to_N (Z.of_N (snd a) + snd k))).
Proof.
  unfold m_char_of, add_signed.
  destruct (Z.of_N (fst a) + fst k <? 0); cbn; auto.
  destruct (Z.of_N (snd a) + snd k <? 0); cbn; auto.
Qed.

(** rows appended below *)
Theorem occ_matrix_add_rows p h rows a : occ_matrix p h a -> occ_matrix p (h ++ rows) a.
Proof.
  assert (G : forall pos, cell_at h pos <> None -> cell_at (h ++ rows) pos = cell_at h pos).
  { intros pos Hc. unfold cell_at in *. destruct (nth_error h (N.to_nat (fst pos))) eqn:Hn; [|contradiction].
    rewrite nth_error_app1; [now rewrite Hn|]. apply nth_error_Some. congruence. }
  intros [Ha [env Hall]]. split; [rewrite G; auto|].
  exists env. intros kc Hin. destruct (Hall kc Hin) as [ch [Ck Hv]]. exists ch. split; auto.
  rewrite m_char_of_pos in *. destruct (_ || _); [discriminate|]. rewrite G; congruence.
Qed.

(** rows prepended above: the anchor moves down *)
Theorem occ_matrix_prepend_rows p h rows a :
  occ_matrix p h a -> occ_matrix p (rows ++ h) ((fst a + N.of_nat (length rows))%N, snd a).
Proof.
  assert (G : forall r c, cell_at (rows ++ h) ((r + N.of_nat (length rows))%N, c) = cell_at h (r, c)).
  { intros r c. unfold cell_at. cbn. rewrite nth_error_app2 by lia.
    replace (N.to_nat (r + N.of_nat (length rows)) - length rows)%nat with (N.to_nat r) by lia. reflexivity. }
  intros [Ha [env Hall]]. split.
  - rewrite G. destruct a; exact Ha.
  - exists env. intros kc Hin. destruct (Hall kc Hin) as [ch [Ck Hv]]. exists ch. split; auto.
    rewrite m_char_of_pos in *. cbn [fst snd].
    destruct (Z.ltb_spec (Z.of_N (fst a) + fst (fst kc)) 0); cbn in Ck; [discriminate|].
    destruct (Z.ltb_spec (Z.of_N (snd a) + snd (fst kc)) 0); cbn in Ck; [discriminate|].
    destruct (Z.ltb_spec (Z.of_N (fst a + N.of_nat (length rows)) + fst (fst kc)) 0); [lia|]. cbn.
    destruct (Z.ltb_spec (Z.of_N (snd a) + snd (fst kc)) 0); [lia|]. cbn.
    replace (Z.to_N (Z.of_N (fst a + N.of_nat (length rows)) + fst (fst kc)))
      with (Z.to_N (Z.of_N (fst a) + fst (fst kc)) + N.of_nat (length rows))%N by lia.
    rewrite G. exact Ck.
Qed.

(** characters appended to the right of rows ([ext] gives the suffix added to each row) *)
Fixpoint widen (h : mhost) (ext : list (list N)) : mhost :=
  match h, ext with
  | row :: h', e :: ext' => (row ++ e) :: widen h' ext'
  | _, _ => h
  end.

Lemma cell_at_widen h : forall ext pos, cell_at h pos <> None -> cell_at (widen h ext) pos = cell_at h pos.
Proof.
  unfold cell_at. induction h as [|row h IH]; intros ext [r c] Hc; cbn [fst snd] in *.
  - destruct ext; reflexivity.
  - destruct ext as [|e ext]; [reflexivity|]. cbn [widen].
    destruct (N.to_nat r) as [|n] eqn:Er; cbn in *.
    + rewrite nth_error_app1; auto. apply nth_error_Some. exact Hc.
    + specialize (IH ext (N.of_nat n, c)). cbn in IH. rewrite Nat2N.id in IH. apply IH. exact Hc.
Qed.

Theorem occ_matrix_widen p h ext a : occ_matrix p h a -> occ_matrix p (widen h ext) a.
Proof.
  intros [Ha [env Hall]]. split; [rewrite cell_at_widen; auto|].
  exists env. intros kc Hin. destruct (Hall kc Hin) as [ch [Ck Hv]]. exists ch. split; auto.
  rewrite m_char_of_pos in *. destruct (_ || _); [discriminate|]. rewrite cell_at_widen; congruence.
Qed.

(** the same number [n] of characters prepended to every row: the anchor moves right *)
Definition shift_right (pre : list (list N)) (h : mhost) : mhost :=
  map (fun pr => fst pr ++ snd pr) (combine pre h).

Theorem occ_matrix_shift_right p h pre n a :
  length pre = length h -> (forall e, In e pre -> length e = n) ->
  occ_matrix p h a -> occ_matrix p (shift_right pre h) (fst a, (snd a + N.of_nat n)%N).
Proof.
  intros Hlen Hn.
  assert (G : forall r c, cell_at h (r, c) <> None ->
                          cell_at (shift_right pre h) (r, (c + N.of_nat n)%N) = cell_at h (r, c)).
  { intros r c. unfold cell_at, shift_right. cbn [fst snd].
    rewrite nth_error_map.
    destruct (nth_error h (N.to_nat r)) as [row|] eqn:Hr; [|contradiction].
    destruct (nth_error pre (N.to_nat r)) as [e|] eqn:He.
    - assert (Hc : nth_error (combine pre h) (N.to_nat r) = Some (e, row)).
      { clear - Hr He. revert h Hr He. generalize (N.to_nat r) as i.
        induction pre as [|x pre IHp]; intros i h Hr He; destruct i, h; cbn in *; try discriminate.
        - inversion Hr; inversion He; subst. reflexivity.
        - apply IHp; auto. }
      rewrite Hc. cbn. intros _. rewrite nth_error_app2 by (rewrite (Hn e); [lia|eapply nth_error_In; eauto]).
      rewrite (Hn e) by (eapply nth_error_In; eauto).
      replace (N.to_nat (c + N.of_nat n) - n)%nat with (N.to_nat c) by lia. reflexivity.
    - exfalso. apply nth_error_None in He. assert (N.to_nat r < length h)%nat by (apply nth_error_Some; congruence). lia. }
  intros [Ha [env Hall]]. split.
  - rewrite G; destruct a; auto.
  - exists env. intros kc Hin. destruct (Hall kc Hin) as [ch [Ck Hv]]. exists ch. split; auto.
    rewrite m_char_of_pos in *. cbn [fst snd].
    destruct (Z.ltb_spec (Z.of_N (fst a) + fst (fst kc)) 0); cbn in Ck; [discriminate|].
    destruct (Z.ltb_spec (Z.of_N (snd a) + snd (fst kc)) 0); cbn in Ck; [discriminate|].
    destruct (Z.ltb_spec (Z.of_N (snd a + N.of_nat n) + snd (fst kc)) 0); [lia|]. cbn.
    replace (Z.to_N (Z.of_N (snd a + N.of_nat n) + snd (fst kc)))
      with (Z.to_N (Z.of_N (snd a) + snd (fst kc)) + N.of_nat n)%N by lia.
    rewrite G; [exact Ck|congruence].
Qed.

(** a matrix pattern occurs in its own instantiation (holes filled with any
    character), provided the top-left cell of that host exists *)
Definition m_inst (sigma : N -> N) (fill : N) (p : mpattern) : mhost :=
  map (map (fun c => match c with Some (Lit l) => l | Some (Var x) => sigma x | None => fill end)) p.

Lemma m_enum_row_nth row : forall i j k cv, In (k, cv) (m_enum_row row i j) ->
  fst k = i /\ j <= snd k /\ nth_error row (Z.to_nat (snd k - j)) = Some (Some cv).
Proof.
  induction row as [|[c|] row IH]; intros i j k cv Hin; cbn in Hin; [destruct Hin| |].
  - destruct Hin as [E|Hin].
    + inversion E; subst. cbn. rewrite Z.sub_diag. repeat split; auto. lia.
    + destruct (IH _ _ _ _ Hin) as [H1 [H2 H3]]. split; auto. split; [lia|].
      replace (Z.to_nat (snd k - j)) with (S (Z.to_nat (snd k - (j + 1)))) by lia. exact H3.
  - destruct (IH _ _ _ _ Hin) as [H1 [H2 H3]]. split; auto. split; [lia|].
    replace (Z.to_nat (snd k - j)) with (S (Z.to_nat (snd k - (j + 1)))) by lia. exact H3.
Qed.

Lemma m_enum_nth p : forall i k cv, In (k, cv) (m_enum p i) ->
  exists row, i <= fst k /\ nth_error p (Z.to_nat (fst k - i)) = Some row
              /\ 0 <= snd k /\ nth_error row (Z.to_nat (snd k)) = Some (Some cv).
Proof.
  induction p as [|row p IH]; intros i k cv Hin; cbn in Hin; [destruct Hin|].
  apply in_app_or in Hin as [Hin|Hin].
  - destruct (m_enum_row_nth _ _ _ _ _ Hin) as [H1 [H2 H3]]. exists row.
    rewrite H1, Z.sub_diag. cbn. rewrite Z.sub_0_r in H3. repeat split; auto; lia.
  - destruct (IH _ _ _ Hin) as [row' [H1 [H2 [H3 H4]]]]. exists row'. split; [lia|].
    split; auto. replace (Z.to_nat (fst k - i)) with (S (Z.to_nat (fst k - (i + 1)))) by lia. exact H2.
Qed.

Theorem occ_matrix_self sigma fill p :
  cell_at (m_inst sigma fill p) (0%N, 0%N) <> None ->
  occ_matrix p (m_inst sigma fill p) (0%N, 0%N).
Proof.
  intros Ha. split; auto. exists sigma. intros [k cv] Hin.
  destruct (m_enum_nth _ _ _ _ Hin) as [row [H1 [H2 [H3 H4]]]]. rewrite Z.sub_0_r in H2.
  exists (match cv with Lit l => l | Var x => sigma x end). cbn [fst snd]. split; [|destruct cv; reflexivity].
  rewrite m_char_of_pos. cbn [fst snd].
  destruct (Z.ltb_spec (Z.of_N 0 + fst k) 0); [lia|]. destruct (Z.ltb_spec (Z.of_N 0 + snd k) 0); [lia|]. cbn.
  unfold cell_at, m_inst. cbn [fst snd].
  replace (N.to_nat (Z.to_N (fst k))) with (Z.to_nat (fst k)) by lia.
  replace (N.to_nat (Z.to_N (snd k))) with (Z.to_nat (snd k)) by lia.
  rewrite nth_error_map, H2. cbn. rewrite nth_error_map, H4. cbn. destruct cv; reflexivity.
Qed.
