(** C16: arity check and unbound arguments. *)
From PM Require Import Model.Prelude Model.Domain Model.Constraint.

Section ConstraintProofs.
  Context {K V M H P : Type} (D : DomOps K V M H P).

  Lemma try_new_ok_iff p args :
    (exists c, try_new D p args = inr c) <-> length args = arity D p.
  Proof.
    unfold try_new. destruct (Nat.eqb_spec (length args) (arity D p)); split; eauto.
    - intros [c Hc]. discriminate.
    - intros E. contradiction.
  Qed.

  Lemma try_new_ok_value p args c :
    try_new D p args = inr c -> cpred c = p /\ cargs c = args.
  Proof.
    unfold try_new. destruct (Nat.eqb (length args) (arity D p)); [|discriminate].
    intros E. inversion E; subst. auto.
  Qed.

  Lemma try_new_err p args e :
    try_new D p args = inl e -> e = (arity D p, length args) /\ length args <> arity D p.
  Proof.
    unfold try_new. destruct (Nat.eqb_spec (length args) (arity D p)); [discriminate|].
    intros E. inversion E; subst. auto.
  Qed.

  Lemma try_binary_ok_iff l p r :
    (exists c, try_binary_from_triple D l p r = inr c) <-> arity D p = 2.
  Proof.
    unfold try_binary_from_triple. rewrite try_new_ok_iff. cbn. split; auto.
  Qed.

  Lemma resolve_all_bound m args vs :
    Forall2 (fun k v => mget D m k = Some v) args vs -> resolve_args D m args = inr vs.
  Proof.
    induction 1 as [|k v ks vs' Hk _ IH]; cbn; [reflexivity|]. now rewrite Hk, IH.
  Qed.

  Lemma resolve_first_unbound m args k :
    first_unbound D m args = Some k -> resolve_args D m args = inl k.
  Proof.
    induction args as [|a args IH]; cbn; [discriminate|].
    destruct (mget D m a) as [v|]; [|congruence].
    intros E. now rewrite (IH E).
  Qed.

  Lemma first_unbound_none m args :
    first_unbound D m args = None ->
    exists vs, Forall2 (fun k v => mget D m k = Some v) args vs.
  Proof.
    induction args as [|a args IH]; cbn; [exists []; constructor|].
    destruct (mget D m a) as [v|] eqn:Ha; [|discriminate].
    intros E. destruct (IH E) as [vs Hvs]. exists (v :: vs). now constructor.
  Qed.

  (** [first_unbound] really is the first unbound argument, in argument order. *)
  Lemma first_unbound_spec m args k :
    first_unbound D m args = Some k <->
    exists l1 l2, args = l1 ++ k :: l2 /\ mget D m k = None
                  /\ forall x, In x l1 -> mget D m x <> None.
  Proof.
    induction args as [|a args IH]; cbn.
    - split; [discriminate|]. intros [l1 [l2 [E _]]]. destruct l1; discriminate.
    - destruct (mget D m a) as [v|] eqn:Ha.
      + rewrite IH. split.
        * intros [l1 [l2 [-> [Hk Hl]]]]. exists (a :: l1), l2. split; auto. split; auto.
          intros x [<-|Hx]; [congruence|auto].
        * intros [l1 [l2 [E [Hk Hl]]]]. destruct l1 as [|b l1]; cbn in E; inversion E; subst.
          -- congruence.
          -- exists l1, l2. split; auto. split; auto. intros x Hx. apply Hl. now right.
      + split.
        * intros E. inversion E; subst. exists [], args. split; [reflexivity|].
          split; [assumption|]. intros x Hx. destruct Hx.
        * intros [l1 [l2 [E [Hk Hl]]]]. destruct l1 as [|b l1]; cbn in E; inversion E; subst.
          -- reflexivity.
          -- exfalso. apply (Hl b); [now left|auto].
  Qed.

  (** All arguments bound: the predicate's verdict on the bound values, in
      argument order, with exactly one invocation. *)
  Theorem is_satisfied_bound h c m vs :
    Forall2 (fun k v => mget D m k = Some v) (cargs c) vs ->
    is_satisfied_calls D h c m = (let* b := check D h (cpred c) vs in Ok (SatVerdict b, 1)).
  Proof.
    intros Hb. unfold is_satisfied_calls. now rewrite (resolve_all_bound _ _ _ Hb).
  Qed.

  (** Some argument unbound: the error names the first unbound key and the
      predicate is not invoked (0 calls; the result does not depend on [check]). *)
  Theorem is_satisfied_unbound h c m k :
    first_unbound D m (cargs c) = Some k ->
    is_satisfied_calls D h c m = Ok (SatUnbound k, 0).
  Proof.
    intros Hu. unfold is_satisfied_calls. now rewrite (resolve_first_unbound _ _ _ Hu).
  Qed.

  Lemma is_satisfied_cases h c m :
    (exists k, first_unbound D m (cargs c) = Some k
               /\ is_satisfied_calls D h c m = Ok (SatUnbound k, 0))
    \/ (exists vs, Forall2 (fun k v => mget D m k = Some v) (cargs c) vs
               /\ is_satisfied_calls D h c m
                  = (let* b := check D h (cpred c) vs in Ok (SatVerdict b, 1))).
  Proof.
    destruct (first_unbound D m (cargs c)) as [k|] eqn:E.
    - left. exists k. split; auto. now apply is_satisfied_unbound.
    - right. destruct (first_unbound_none _ _ E) as [vs Hvs]. exists vs. split; auto.
      now apply is_satisfied_bound.
  Qed.
End ConstraintProofs.
