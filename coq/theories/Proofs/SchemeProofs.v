(** C12: missing_bindings / all_missing_bindings (current algorithm). *)
From PM Require Import Model.Prelude Model.Scheme Spec.TopoSpec.

Section SchemeProofs.
  Context {K : Type} (keqb : K -> K -> bool) (req : K -> list K).
  Hypothesis keqb_spec : forall a b, keqb a b = true <-> a = b.

  Notation mem := (memb keqb).
  Let mem_in := memb_in keqb keqb_spec.
  Let mem_nin := memb_not_in keqb keqb_spec.

  Definition fkey (f : @frame K) : K := match f with Enter k => k | Exit k => k end.

  Section Loop.
    Variable rank : K -> nat.
    Hypothesis rank_ok : forall k r, In r (req k) -> rank r < rank k.
    Variable known : list K.
    Variable key : K.
    Notation kn := (fun x => In x known).

    Record Inv (stack : list frame) (visited out : list K) : Prop := {
      inv_nodup_out : NoDup out;
      inv_vis : forall k, In k visited <-> In k out \/ In (Exit k) stack;
      inv_exit_once : forall s1 k s2, stack = s1 ++ Exit k :: s2 ->
                        ~ In (Exit k) s1 /\ ~ In (Exit k) s2 /\ ~ In k out;
      inv_closure : (forall f, In f stack -> closure req kn key (fkey f))
                    /\ (forall k, In k out -> closure req kn key k);
      inv_out_pre : forall o1 k o2, out = o1 ++ k :: o2 ->
                      forall r, In r (req k) -> ~ In r known -> In r o2;
      inv_pending : forall s1 k s2, stack = s1 ++ Exit k :: s2 ->
                      forall r, In r (req k) -> ~ In r known ->
                        In r out \/ In (Enter r) s1 \/ In (Exit r) s1;
      inv_rank : forall s1 k s2, stack = s1 ++ Exit k :: s2 ->
                   forall f, In f s1 -> rank (fkey f) < rank k;
      inv_key : In key out \/ In (Exit key) stack \/ In (Enter key) stack;
    }.

    Lemma app_cons_split {A} (x y : A) s1 s2 t :
      x :: t = s1 ++ y :: s2 ->
      (s1 = [] /\ x = y /\ t = s2) \/ (exists s1', s1 = x :: s1' /\ t = s1' ++ y :: s2).
    Proof.
      destruct s1 as [|z s1']; cbn; intros E; inversion E; subst; eauto.
    Qed.

    Lemma inv_exit stack visited out k :
      Inv (Exit k :: stack) visited out -> Inv stack visited (k :: out).
    Proof.
      intros I.
      destruct (inv_exit_once _ _ _ I [] k stack eq_refl) as [_ [Hns Hno]].
      constructor.
      - constructor; auto. apply (inv_nodup_out _ _ _ I).
      - intros x. rewrite (inv_vis _ _ _ I x). cbn. split.
        + intros [H|[H|H]]; auto. inversion H; subst. auto.
        + intros [[<-|H]|H]; auto.
      - intros s1 k' s2 E.
        destruct (inv_exit_once _ _ _ I (Exit k :: s1) k' s2) as [H1 [H2 H3]];
          [cbn; now rewrite E|].
        split; [|split]; auto.
        + intros C. apply H1. now right.
        + intros [<-|C]; auto. apply H1. now left.
      - destruct (inv_closure _ _ _ I) as [C1 C2]. split.
        + intros f Hf. apply C1. now right.
        + intros x [<-|Hx]; auto. apply (C1 (Exit k)). now left.
      - intros o1 x o2 E r Hr Hk.
        destruct o1 as [|y o1']; cbn in E; inversion E; subst.
        + destruct (inv_pending _ _ _ I [] x stack eq_refl r Hr Hk) as [H|[[]|[]]]. exact H.
        + eapply (inv_out_pre _ _ _ I); eauto.
      - intros s1 k' s2 E r Hr Hk.
        destruct (inv_pending _ _ _ I (Exit k :: s1) k' s2) with (r := r) as [H|[H|H]]; auto.
        + cbn. now rewrite E.
        + left. now right.
        + destruct H as [H|H]; [discriminate|]. auto.
        + destruct H as [H|H]; auto. inversion H; subst. left. now left.
      - intros s1 k' s2 E f Hf.
        apply (inv_rank _ _ _ I (Exit k :: s1) k' s2); [cbn; now rewrite E|now right].
      - destruct (inv_key _ _ _ I) as [H|[[H|H]|[H|H]]]; auto.
        + left. now right.
        + inversion H; subst. left. now left.
        + discriminate.
    Qed.

    Lemma inv_enter_skip stack visited out k :
      In k visited -> Inv (Enter k :: stack) visited out -> Inv stack visited out.
    Proof.
      intros Hv I.
      assert (Hk : In k out \/ In (Exit k) stack).
      { apply (inv_vis _ _ _ I) in Hv. destruct Hv as [H|[H|H]]; auto. discriminate. }
      constructor.
      - apply (inv_nodup_out _ _ _ I).
      - intros x. rewrite (inv_vis _ _ _ I x). cbn. split.
        + intros [H|[H|H]]; auto. discriminate.
        + intros [H|H]; auto.
      - intros s1 k' s2 E.
        destruct (inv_exit_once _ _ _ I (Enter k :: s1) k' s2) as [H1 [H2 H3]];
          [cbn; now rewrite E|].
        split; [|split]; auto. intros C. apply H1. now right.
      - destruct (inv_closure _ _ _ I) as [C1 C2]. split; auto.
        intros f Hf. apply C1. now right.
      - apply (inv_out_pre _ _ _ I).
      - intros s1 k' s2 E r Hr Hkn.
        destruct (inv_pending _ _ _ I (Enter k :: s1) k' s2) with (r := r) as [H|[H|H]]; auto.
        + cbn. now rewrite E.
        + destruct H as [H|H]; auto. inversion H; subst r. clear H.
          (* the popped Enter k was the justification: k is visited *)
          destruct Hk as [Hk|Hk]; auto.
          rewrite E in Hk. apply in_app_or in Hk. destruct Hk as [Hk|[Hk|Hk]]; auto.
          * inversion Hk; subst. exfalso. specialize (rank_ok _ _ Hr). lia.
          * exfalso. apply in_split in Hk as [t1 [t2 Et]].
            assert (E' : Enter k :: stack
                         = (Enter k :: s1 ++ Exit k' :: t1) ++ Exit k :: t2).
            { rewrite E, Et. cbn. now rewrite <- app_assoc. }
            pose proof (inv_rank _ _ _ I _ _ _ E' (Exit k')) as Hlt.
            cbn in Hlt. specialize (rank_ok _ _ Hr).
            assert (rank k' < rank k); [|lia].
            apply Hlt. right. apply in_or_app. right. now left.
        + destruct H as [H|H]; [discriminate|]. auto.
      - intros s1 k' s2 E f Hf.
        apply (inv_rank _ _ _ I (Enter k :: s1) k' s2); [cbn; now rewrite E|now right].
      - destruct (inv_key _ _ _ I) as [H|[[H|H]|[H|H]]]; auto; try discriminate.
        inversion H; subst. destruct Hk; auto.
    Qed.

    Lemma in_rev_map_enter (r : K) (news : list K) : In (Enter r) (rev (map Enter news)) <-> In r news.
    Proof.
      rewrite <- in_rev, in_map_iff. split.
      - intros [x [E Hx]]. inversion E; subst. auto.
      - intros Hx. eauto.
    Qed.

    Lemma not_exit_rev_map_enter (r : K) (news : list K) : ~ In (@Exit K r) (rev (map Enter news)).
    Proof.
      rewrite <- in_rev, in_map_iff. intros [x [E _]]. discriminate.
    Qed.

    Lemma dec_enters (F : list (@frame K)) k stack s1 k' s2 :
      (forall r, ~ In (Exit r) F) ->
      F ++ Exit k :: stack = s1 ++ Exit k' :: s2 ->
      (s1 = F /\ k' = k /\ s2 = stack)
      \/ (exists s1', s1 = F ++ Exit k :: s1' /\ stack = s1' ++ Exit k' :: s2).
    Proof.
      revert s1. induction F as [|f F IHF]; intros s1 HF E; cbn in E.
      - apply app_cons_split in E. destruct E as [[-> [E ->]]|[s1' [-> ->]]].
        + inversion E; subst. left. auto.
        + right. exists s1'. auto.
      - destruct s1 as [|g s1']; cbn in E; inversion E; subst.
        + exfalso. apply (HF k'). now left.
        + destruct (IHF s1' (fun r C => HF r (or_intror C)) H1)
            as [[-> [-> ->]]|[s1'' [-> ->]]].
          * left. auto.
          * right. exists s1''. auto.
    Qed.

    Lemma inv_enter_new stack visited out k :
      ~ In k visited -> Inv (Enter k :: stack) visited out ->
      let news := filter (fun r => negb (mem r known) && negb (mem r visited)) (req k) in
      Inv (rev (map Enter news) ++ Exit k :: stack) (k :: visited) out.
    Proof.
      intros Hnv I news.
      assert (Hnews : forall r, In r news <-> In r (req k) /\ ~ In r known /\ ~ In r visited).
      { intros r. unfold news. rewrite filter_In, andb_true_iff, !negb_true_iff, !mem_nin.
        tauto. }
      assert (Hko : ~ In k out /\ ~ In (Exit k) stack).
      { split; intros C; apply Hnv; apply (inv_vis _ _ _ I); auto. right. now right. }
      destruct Hko as [Hko Hks].
      (* decompositions of the new stack *)
      assert (Hdec : forall s1 k' s2,
                 rev (map Enter news) ++ Exit k :: stack = s1 ++ Exit k' :: s2 ->
                 (s1 = rev (map Enter news) /\ k' = k /\ s2 = stack)
                 \/ (exists s1', s1 = rev (map Enter news) ++ Exit k :: s1'
                                 /\ stack = s1' ++ Exit k' :: s2)).
      { intros s1 k' s2 E. apply dec_enters in E; auto.
        intros r. apply not_exit_rev_map_enter. }
      constructor.
      - apply (inv_nodup_out _ _ _ I).
      - intros x. cbn [In]. rewrite (inv_vis _ _ _ I x). rewrite in_app_iff. cbn [In]. split.
        + intros [<-|[H|[H|H]]].
          * right. right. now left.
          * now left.
          * discriminate.
          * right. right. now right.
        + intros [H|[H|[H|H]]].
          * right. now left.
          * exfalso. eapply not_exit_rev_map_enter; eauto.
          * inversion H; auto.
          * right. right. now right.
      - intros s1 k' s2 E. apply Hdec in E.
        destruct E as [[-> [-> ->]]|[s1' [-> E]]].
        + split; [apply not_exit_rev_map_enter|split; auto].
        + destruct (inv_exit_once _ _ _ I (Enter k :: s1') k' s2) as [H1 [H2 H3]];
            [cbn; now rewrite E|].
          split; [|split]; auto.
          intros C. apply in_app_or in C. destruct C as [C|[C|C]].
          * eapply not_exit_rev_map_enter; eauto.
          * injection C as ->. apply Hks. rewrite E. apply in_or_app. right. now left.
          * apply H1. now right.
      - destruct (inv_closure _ _ _ I) as [C1 C2]. split; auto.
        assert (Ck : closure req kn key k) by (apply (C1 (Enter k)); now left).
        intros f Hf. apply in_app_or in Hf. destruct Hf as [Hf|[<-|Hf]]; auto.
        + destruct f as [r|r]; [|exfalso; eapply not_exit_rev_map_enter; eauto].
          apply in_rev_map_enter, Hnews in Hf. destruct Hf as [Hr [Hkn _]].
          cbn. eapply cl_step; eauto.
        + apply C1. now right.
      - apply (inv_out_pre _ _ _ I).
      - intros s1 k' s2 E r Hr Hkn. apply Hdec in E.
        destruct E as [[-> [-> ->]]|[s1' [-> E]]].
        + (* the fresh Exit k *)
          destruct (mem r visited) eqn:Hv; [apply mem_in in Hv|apply mem_nin in Hv].
          * apply (inv_vis _ _ _ I) in Hv. destruct Hv as [Hv|[Hv|Hv]]; auto; [discriminate|].
            exfalso. apply in_split in Hv as [t1 [t2 Et]].
            assert (E' : Enter k :: stack = (Enter k :: t1) ++ Exit r :: t2)
              by (rewrite Et; reflexivity).
            pose proof (inv_rank _ _ _ I _ _ _ E' (Enter k) (or_introl eq_refl)) as Hlt.
            cbn in Hlt. specialize (rank_ok _ _ Hr). lia.
          * right. left. apply in_rev_map_enter, Hnews. auto.
        + destruct (inv_pending _ _ _ I (Enter k :: s1') k' s2) with (r := r) as [H|[H|H]]; auto.
          * cbn. now rewrite E.
          * destruct H as [H|H].
            -- inversion H; subst. right. right. apply in_or_app. right. now left.
            -- right. left. apply in_or_app. right. now right.
          * destruct H as [H|H]; [discriminate|].
            right. right. apply in_or_app. right. now right.
      - intros s1 k' s2 E f Hf. apply Hdec in E.
        destruct E as [[-> [-> ->]]|[s1' [-> E]]].
        + destruct f as [r|r]; [|exfalso; eapply not_exit_rev_map_enter; eauto].
          apply in_rev_map_enter, Hnews in Hf. cbn. apply rank_ok. tauto.
        + assert (Hk' : rank k < rank k').
          { apply (inv_rank _ _ _ I (Enter k :: s1') k' s2 (f_equal (cons _) E) (Enter k)).
            now left. }
          apply in_app_or in Hf. destruct Hf as [Hf|[<-|Hf]]; auto.
          * destruct f as [r|r]; [|exfalso; eapply not_exit_rev_map_enter; eauto].
            apply in_rev_map_enter, Hnews in Hf. cbn.
            assert (rank r < rank k) by (apply rank_ok; tauto). lia.
          * apply (inv_rank _ _ _ I (Enter k :: s1') k' s2 (f_equal (cons _) E)). now right.
      - destruct (inv_key _ _ _ I) as [H|[[H|H]|[H|H]]]; auto; try discriminate.
        + right. left. apply in_or_app. right. now right.
        + inversion H; subst. right. left. apply in_or_app. right. now left.
        + right. right. apply in_or_app. right. now right.
    Qed.

    Lemma mb_loop_inv fuel : forall stack visited out l,
      Inv stack visited out ->
      mb_loop keqb req fuel known stack visited out = Ok l ->
      exists visited' out', l = rev out' /\ Inv [] visited' out'.
    Proof.
      induction fuel as [|f IH]; intros stack visited out l I E; cbn in E; [discriminate|].
      destruct stack as [|[k|k] st].
      - inversion E; subst. exists visited, out. split; auto.
      - destruct (mem k visited) eqn:Hm.
        + apply mem_in in Hm. eapply IH; [|exact E]. eapply inv_enter_skip; eauto.
        + apply mem_nin in Hm. eapply IH; [|exact E]. now apply inv_enter_new.
      - eapply IH; [|exact E]. now apply inv_exit.
    Qed.

    Lemma inv_init : ~ In key known -> Inv [Enter key] [] [].
    Proof.
      intros Hk. constructor.
      - constructor.
      - intros k. cbn. split; [intros []|intros [[]|[C|[]]]; discriminate].
      - intros s1 k s2 E. destruct s1 as [|f [|g s1]]; cbn in E; inversion E; destruct s1; discriminate.
      - split; [|intros ? []]. intros f [<-|[]]. cbn. now constructor.
      - intros o1 k o2 E. destruct o1; discriminate.
      - intros s1 k s2 E. destruct s1 as [|f [|g s1]]; cbn in E; inversion E; destruct s1; discriminate.
      - intros s1 k s2 E. destruct s1 as [|f [|g s1]]; cbn in E; inversion E; destruct s1; discriminate.
      - right. right. now left.
    Qed.

    Lemma final_spec visited out :
      Inv [] visited out ->
      NoDup (rev out)
      /\ (forall x, In x (rev out) <-> closure req kn key x)
      /\ prereq_first req kn (rev out).
    Proof.
      intros I. split; [|split].
      - apply NoDup_rev, (inv_nodup_out _ _ _ I).
      - intros x. rewrite <- in_rev. split.
        + apply (proj2 (inv_closure _ _ _ I)).
        + intros C. induction C as [Hk|k r C IHC Hr Hkn].
          * destruct (inv_key _ _ _ I) as [H|[[]|[]]]. exact H.
          * apply in_split in IHC as [o1 [o2 Eo]].
            pose proof (inv_out_pre _ _ _ I o1 k o2 Eo r Hr Hkn) as Hin.
            rewrite Eo. apply in_or_app. right. now right.
      - intros l1 k l2 E r Hr Hkn.
        assert (Eo : out = rev l2 ++ k :: rev l1).
        { rewrite <- (rev_involutive out), E, rev_app_distr. cbn.
          now rewrite <- app_assoc. }
        pose proof (inv_out_pre _ _ _ I _ _ _ Eo r Hr Hkn) as Hin.
        now apply in_rev in Hin.
    Qed.
  End Loop.

  (** C12, single key. *)
  Theorem missing_ok fuel key known l :
    acyclic req ->
    missing_bindings keqb req fuel key known = Ok l ->
    NoDup l
    /\ (forall x, In x l <-> closure req (fun x => In x known) key x)
    /\ prereq_first req (fun x => In x known) l.
  Proof.
    intros [rank Hrank] E. unfold missing_bindings in E.
    destruct (mem key known) eqn:Hm.
    - apply mem_in in Hm. inversion E; subst. split; [constructor|split].
      + intros x. split; [intros []|]. intros C. exfalso.
        induction C; auto.
      + intros l1 k l2 E'. destruct l1; discriminate.
    - apply mem_nin in Hm.
      destruct (mb_loop_inv rank Hrank known key fuel _ _ _ l (inv_init rank known key Hm) E)
        as [visited [out [-> I]]].
      now apply (final_spec rank known key visited).
  Qed.

  Corollary missing_known_nil fuel key known :
    In key known -> missing_bindings keqb req fuel key known = Ok [].
  Proof.
    intros H. unfold missing_bindings. apply mem_in in H. now rewrite H.
  Qed.

  (** ** all_missing_bindings *)
  Notation kn known := (fun x => In x known).

  Lemma closure_not_known known key x : closure req (kn known) key x -> ~ In x known.
  Proof. intros C. destruct C; auto. Qed.

  Lemma closure_mono (known known' : list K) key x :
    (forall y, In y known -> In y known') ->
    closure req (kn known') key x -> closure req (kn known) key x.
  Proof.
    intros Hsub C. induction C as [Hk|k r C IH Hr Hk].
    - constructor. auto.
    - eapply cl_step; eauto.
  Qed.

  Lemma closure_trans known key y x :
    closure req (kn known) key y -> closure req (kn known) y x -> closure req (kn known) key x.
  Proof.
    intros C1 C2. induction C2 as [Hk|k r C IH Hr Hk]; auto.
    eapply cl_step; eauto.
  Qed.

  Lemma closure_split known miss key k :
    (forall x, In x miss <-> closure req (kn known) k x) ->
    forall x, closure req (kn known) key x ->
      In x miss \/ closure req (kn (known ++ miss)) key x.
  Proof.
    intros Hm x C. induction C as [Hk|k0 r C IH Hr Hk].
    - destruct (mem key miss) eqn:E; [left; now apply mem_in|right].
      apply mem_nin in E. constructor. intros Hin. apply in_app_or in Hin. tauto.
    - destruct (mem r miss) eqn:E; [left; now apply mem_in|]. apply mem_nin in E.
      destruct IH as [IH|IH].
      + left. apply Hm. apply Hm in IH. eapply cl_step; eauto.
      + right. eapply cl_step; eauto. intros Hin. apply in_app_or in Hin. tauto.
  Qed.

  Theorem amb_loop_ok fuel : acyclic req ->
    forall keys known acc l,
    amb_loop keqb (missing_bindings keqb req fuel) keys known acc = Ok l ->
    exists l', l = acc ++ l'
      /\ NoDup l'
      /\ (forall x, In x l' -> ~ In x known)
      /\ (forall x, In x l' <-> closure_list req (kn known) keys x)
      /\ prereq_first req (kn known) l'.
  Proof.
    intros Hac keys. induction keys as [|k ks IH]; intros known acc l E; cbn in E.
    - inversion E; subst. exists []. rewrite app_nil_r. split; auto. split; [constructor|].
      split; [intros ? []|]. split.
      + intros x. split; [intros []|]. intros [key [[] _]].
      + intros l1 k l2 C. destruct l1; discriminate.
    - destruct (mem k known) eqn:Hm.
      + apply mem_in in Hm. destruct (IH _ _ _ E) as [l' [-> [Hnd [Hdis [Hset Hpf]]]]].
        exists l'. split; auto. split; auto. split; auto. split; auto.
        intros x. rewrite Hset. split.
        * intros [key [Hin C]]. exists key. split; auto. now right.
        * intros [key [[<-|Hin] C]].
          -- exfalso. assert (forall y, closure req (kn known) k y -> False); eauto.
             intros y Cy. induction Cy; auto.
          -- exists key. auto.
      + apply mem_nin in Hm.
        destruct (missing_bindings keqb req fuel k known) as [miss| |] eqn:Hmb; cbn in E;
          try discriminate.
        destruct (missing_ok _ _ _ _ Hac Hmb) as [Hnd1 [Hset1 Hpf1]].
        destruct (IH _ _ _ E) as [l'' [-> [Hnd2 [Hdis2 [Hset2 Hpf2]]]]].
        exists (miss ++ l''). split; [now rewrite app_assoc|].
        assert (Hdisj : forall x, In x miss -> ~ In x l'').
        { intros x Hx Hx'. apply (Hdis2 x Hx'). apply in_or_app. now right. }
        split; [|split; [|split]].
        * clear - Hnd1 Hnd2 Hdisj. induction miss as [|m ms IHm]; cbn; auto.
          inversion Hnd1; subst. constructor.
          -- intros C. apply in_app_or in C. destruct C as [C|C]; auto.
             apply (Hdisj m); auto. now left.
          -- apply IHm; auto. intros x Hx. apply Hdisj. now right.
        * intros x Hx. apply in_app_or in Hx. destruct Hx as [Hx|Hx].
          -- apply Hset1 in Hx. eapply closure_not_known; eauto.
          -- intros C. apply (Hdis2 x Hx). apply in_or_app. now left.
        * intros x. rewrite in_app_iff, Hset1, Hset2. split.
          -- intros [C|[key [Hin C]]].
             ++ exists k. split; auto. now left.
             ++ exists key. split; [now right|].
                eapply closure_mono; [|exact C]. intros y Hy. apply in_or_app. now left.
          -- intros [key [[<-|Hin] C]]; [now left|].
             destruct (closure_split known miss key k Hset1 x C) as [H|H].
             ++ left. now apply Hset1.
             ++ right. exists key. auto.
        * intros l1 k0 l2 E' r Hr Hkn.
          apply app_eq_app in E'. destruct E' as [t [[E1 E2]|[E1 E2]]].
          -- (* miss = l1 ++ t, k0 :: l2 = t ++ l'' *)
             destruct t as [|t0 t'].
             ++ cbn in E2. rewrite app_nil_r in E1. subst l1.
                destruct (mem r miss) eqn:Er; [now apply mem_in in Er|apply mem_nin in Er].
                exfalso. assert (In r []); [|auto].
                eapply (Hpf2 [] k0 l2); eauto. intros C. apply in_app_or in C. tauto.
             ++ cbn in E2. inversion E2; subst t0. eapply Hpf1; eauto.
          -- (* l1 = miss ++ t, l'' = t ++ k0 :: l2 *)
             destruct (mem r miss) eqn:Er; [apply mem_in in Er|apply mem_nin in Er].
             ++ rewrite E1. apply in_or_app. now left.
             ++ rewrite E1. apply in_or_app. right.
                eapply Hpf2; eauto. intros C. apply in_app_or in C. tauto.
  Qed.

  (** C12, key lists. *)
  Theorem all_missing_ok fuel keys known l :
    acyclic req ->
    all_missing_bindings keqb req fuel keys known = Ok l ->
    NoDup l
    /\ (forall x, In x l <-> closure_list req (kn known) keys x)
    /\ prereq_first req (kn known) l
    /\ (forall x, In x l -> ~ In x known).
  Proof.
    intros Hac E. unfold all_missing_bindings in E.
    destruct (amb_loop_ok fuel Hac _ _ _ _ E) as [l' [-> [H1 [H2 [H3 H4]]]]].
    cbn. auto.
  Qed.
End SchemeProofs.
