(** Strings: on a fully certified automaton the run reports exactly the
    occurrences (soundness C01 + completeness C02); consequences for automata
    built under different heuristics (C04) or from different pattern lists
    (C06). *)
From PM Require Import Model.Prelude Model.Domain Model.Constraint Model.Automaton Model.Traversal
  Model.DomString Spec.Occ Cert.LabCheck Cert.WfCheck Cert.WinCheck Cert.CharCert
  Proofs.RunSound Proofs.LawfulDomains Proofs.OccString Proofs.OccProofs Proofs.WfSound Proofs.StringRun Cert.UnambCheck Proofs.StringUnique.
Local Open Scope N_scope.

(** all four certificate checks on one dumped automaton *)
Definition s_certified (A : automaton N cpredicate) (L : labelling) (rk : list (N * nat)) (ids : list N)
    (pats : list spattern) (present : list bool) : Prop :=
  lab_ok string_dom s_goodb atoms_self A L (map s_cvec pats) = true
  /\ wf_check string_dom A rk ids = true
  /\ cert_complete (char_entails N.eqb) (char_refutes N.eqb) A (map s_cvec pats) present = true
  /\ s_keys_tight A (map s_cvec pats) = true.

Lemma s_run_sound_occ pats A L h fuel ms i p m :
  lab_ok string_dom s_goodb atoms_self A L (map s_cvec pats) = true ->
  run string_dom fuel A h = Ok ms -> nth_error pats i = Some p -> p <> [] ->
  In (N.of_nat i, m) ms -> exists a len, m = SBound a len /\ occ_string p h a.
Proof.
  intros C R Hp Hne Hin.
  destruct (run_sound string_dom string_dom_eq (fun _ _ => True) s_goodb atoms_self string_lawful
              (fun h0 c m0 => atoms_self_sound string_dom h0 c m0)
              (fun h0 c m0 => atoms_self_complete string_dom h0 c m0)
              A L _ C h fuel ms R (N.of_nat i, m) Hin) as [_ [cp [Hn Hall]]].
  cbn [fst snd] in Hn, Hall. rewrite Nnat.Nat2N.id, nth_error_map, Hp in Hn. inversion Hn; subst cp.
  apply s_constraints_sound; auto.
Qed.

Theorem s_run_exact A L rk ids pats present h fuel ms i p a :
  s_certified A L rk ids pats present ->
  run string_dom fuel A h = Ok ms ->
  nth_error pats i = Some p -> nth_error present i = Some true -> p <> [] ->
  ((exists len, In (N.of_nat i, SBound a len) ms) <-> occ_string p h a).
Proof.
  intros [C [W [CC T]]] R Hp Hpr Hne. split.
  - intros [len Hin]. destruct (s_run_sound_occ pats A L h fuel ms i p _ C R Hp Hne Hin) as [a' [len' [E O]]].
    inversion E; subst. exact O.
  - intros O. eapply s_complete; eauto.
Qed.

(** every reported match of a non-empty pattern is a bound map *)
Lemma s_run_bound A L rk ids pats present h fuel ms i p m :
  s_certified A L rk ids pats present -> run string_dom fuel A h = Ok ms ->
  nth_error pats i = Some p -> p <> [] -> In (N.of_nat i, m) ms -> exists a len, m = SBound a len.
Proof.
  intros [C _] R Hp Hne Hin. destruct (s_run_sound_occ pats A L h fuel ms i p m C R Hp Hne Hin) as [a [len [E _]]]. eauto.
Qed.

(** two certified automata (any two heuristics, any two pattern lists) report the
    same anchors for a pattern they share *)
Theorem s_certified_agree A1 L1 rk1 ids1 pats1 pr1 A2 L2 rk2 ids2 pats2 pr2 h f1 f2 ms1 ms2 i j p a :
  s_certified A1 L1 rk1 ids1 pats1 pr1 -> s_certified A2 L2 rk2 ids2 pats2 pr2 ->
  run string_dom f1 A1 h = Ok ms1 -> run string_dom f2 A2 h = Ok ms2 ->
  nth_error pats1 i = Some p -> nth_error pr1 i = Some true ->
  nth_error pats2 j = Some p -> nth_error pr2 j = Some true -> p <> [] ->
  ((exists len, In (N.of_nat i, SBound a len) ms1) <-> (exists len, In (N.of_nat j, SBound a len) ms2)).
Proof.
  intros C1 C2 R1 R2 P1 Q1 P2 Q2 Hne.
  rewrite (s_run_exact A1 L1 rk1 ids1 pats1 pr1 h f1 ms1 i p a C1 R1 P1 Q1 Hne).
  rewrite (s_run_exact A2 L2 rk2 ids2 pats2 pr2 h f2 ms2 j p a C2 R2 P2 Q2 Hne). tauto.
Qed.

(** ** exactly once (C07): with the unambiguity certificates as well, the number
    of reports of pattern i at position a is 1 if it occurs there and 0 otherwise *)
Theorem s_run_exactly_once A L Ls rk ids pats present h fuel ms i p a :
  s_certified A L rk ids pats present -> s_unamb_certified A Ls ->
  run string_dom fuel A h = Ok ms ->
  nth_error pats i = Some p -> nth_error present i = Some true -> p <> [] ->
  cnt (N.of_nat i) a ms = if occ_stringb p h a then 1%nat else 0%nat.
Proof.
  intros C [U1 [U2 [U3 U4]]] R Hp Hpr Hne.
  pose proof C as [_ [W _]]. pose proof (WfSound.wf_check_sound string_dom string_dom_eq A rk ids W) as HWF.
  pose proof (s_run_unique A ids HWF Ls U1 U2 U3 U4 h (N.of_nat i) a fuel ms R) as Hle.
  pose proof (s_run_exact A L rk ids pats present h fuel ms i p a C R Hp Hpr Hne) as Hex.
  destruct (occ_stringb p h a) eqn:Eo.
  - apply OccProofs.occ_string_iff in Eo. apply Hex in Eo. apply cnt_pos_in in Eo. lia.
  - destruct (cnt (N.of_nat i) a ms) eqn:Ec; auto. exfalso.
    assert (Hpos : (0 < cnt (N.of_nat i) a ms)%nat) by lia. apply cnt_pos_in in Hpos. apply Hex in Hpos.
    apply OccProofs.occ_string_iff in Hpos. congruence.
Qed.
