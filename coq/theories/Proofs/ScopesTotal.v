(** populate_scopes (Model/Scopes.v) returns — no index panic, no exhausted fuel — on
    every graph whose states are handed to it parents first (what
    petgraph::algo::toposort delivers on an acyclic graph), whose edges lead to
    states and whose constraint orders are readable, for every acyclic indexing
    scheme, with an explicit fuel bound (the C12 weight of the keys the
    constraints use). *)
From PM Require Import Model.Prelude Model.Domain Model.Scheme Model.Automaton Cert.WfCheck Model.Scopes
  Spec.TopoSpec Proofs.SchemeTotal Proofs.RunTotal Proofs.StringRun.

Section ScopesTotal.
  Context {K V M H P : Type} (D : DomOps K V M H P).
  Variable rank : K -> nat.
  Hypothesis rank_ok : forall k r, In r (req D k) -> rank r < rank k.
  Variable A : automaton K P.
  Variable fuel : nat.

  (** every key used by a constraint of the graph *)
  Definition all_args : list K :=
    flat_map (fun s : astate K P => flat_map (fun e : edge K P => edge_args e) (a_out s)) (au_states A).

  Hypothesis Hfuel : forall k, In k all_args -> S (kw (req D) rank k) < fuel.

  Lemma amb_total keys known : incl keys all_args -> exists l, amb_known D fuel keys known = Ok l.
  Proof.
    intros Hi. unfold amb_known, all_missing_bindings.
    apply (amb_loop_total (keqb D) (req D) rank rank_ok). intros k Hk. apply Hfuel. now apply Hi.
  Qed.

  Lemma edge_args_incl s e : In s (au_states A) -> In e (a_out s) -> incl (edge_args e) all_args.
  Proof.
    intros Hs He k Hk. unfold all_args. apply in_flat_map. exists s. split; [exact Hs|].
    apply in_flat_map. exists e. split; [exact He|exact Hk].
  Qed.

  Lemma incoming_edge id se : In se (incoming A id) -> exists s, In s (au_states A) /\ In (snd se) (a_out s) /\ fst se = a_id s.
  Proof.
    unfold incoming. intros Hin. apply filter_In in Hin as [Hin _]. unfold all_edges in Hin.
    apply in_flat_map in Hin as [s [Hs Hm]]. apply in_map_iff in Hm as [e [<- He]]. exists s. cbn. auto.
  Qed.

  Definition has (acc : list (N * list K)) (id : N) : Prop := exists l, lookup_scope acc id = Ok l.

  Lemma has_cons acc n l id : id = n \/ has acc id -> has ((n, l) :: acc) id.
  Proof.
    intros Hc. unfold has. cbn [lookup_scope]. destruct (N.eqb_spec n id) as [_|Hne]; [eauto|].
    destruct Hc as [->|Hh]; [contradiction|exact Hh].
  Qed.

  (** the forward pass *)
  Lemma forward_total : forall rest done acc,
    (forall id, In id done -> has acc id) ->
    (forall l1 id l2, rest = l1 ++ id :: l2 -> forall se, In se (incoming A id) -> In (fst se) (done ++ l1)) ->
    exists fw, forward_scopes D fuel A rest acc = Ok fw /\ forall id, In id (done ++ rest) -> has fw id.
  Proof.
    induction rest as [|n rest IH]; intros done acc Hacc Htopo; cbn [forward_scopes].
    - exists acc. split; [reflexivity|]. intros id Hid. rewrite app_nil_r in Hid. auto.
    - destruct (rmapM_total (fun se : N * edge K P =>
                               let* parent := lookup_scope acc (fst se) in
                               let* ext := amb_known D fuel (edge_args (snd se)) parent in
                               Ok (parent ++ ext)) (incoming A n)) as [ps [-> _]].
      { intros se Hse. pose proof (Htopo [] n rest eq_refl se Hse) as Hd. rewrite app_nil_r in Hd.
        destruct (Hacc _ Hd) as [parent ->]. cbn [rbind].
        destruct (incoming_edge n se Hse) as [s [Hs [He _]]].
        destruct (amb_total (edge_args (snd se)) parent (edge_args_incl s (snd se) Hs He)) as [ext ->]. cbn [rbind]. eauto. }
      cbn [rbind].
      destruct (IH (done ++ [n]) ((n, reduce_scopes D ps) :: acc)) as [fw [E Hfw]].
      + intros id Hid. apply has_cons. apply in_app_or in Hid as [Hid|[<-|[]]]; auto.
      + intros l1 id l2 E se Hse. rewrite <- app_assoc. cbn [app].
        apply (Htopo (n :: l1) id l2); [cbn [app]; now rewrite E|exact Hse].
      + exists fw. split; [exact E|]. intros id Hid. apply Hfw. rewrite <- app_assoc. exact Hid.
  Qed.

  Hypothesis Htargets : forall s e, In s (au_states A) -> In e (a_out s) -> exists t, get_state A (e_target e) = Ok t.

  Lemma get_state_in'' id s : get_state A id = Ok s -> In s (au_states A).
  Proof. intros G. exact (proj1 (get_state_in A id s G)). Qed.

  (** the backward pass *)
  Lemma backward_total : forall rest done acc,
    (forall id, In id done -> has acc id) ->
    (forall id, In id rest -> exists s, get_state A id = Ok s) ->
    (forall l1 id l2 s, rest = l1 ++ id :: l2 -> get_state A id = Ok s ->
       forall e, In e (a_out s) -> In (e_target e) (done ++ l1)) ->
    exists bw, backward_scopes D A rest acc = Ok bw /\ forall id, In id (done ++ rest) -> has bw id.
  Proof.
    induction rest as [|n rest IH]; intros done acc Hacc Hst Htopo; cbn [backward_scopes].
    - exists acc. split; [reflexivity|]. intros id Hid. rewrite app_nil_r in Hid. auto.
    - destruct (Hst n (or_introl eq_refl)) as [s G]. rewrite G. cbn [rbind].
      destruct (rmapM_total (fun e : edge K P =>
                               let* child := lookup_scope acc (e_target e) in
                               let* cst := get_state A (e_target e) in
                               Ok (child ++ match_keys cst)) (a_out s)) as [cs [-> _]].
      { intros e He. pose proof (Htopo [] n rest s eq_refl G e He) as Hd. rewrite app_nil_r in Hd.
        destruct (Hacc _ Hd) as [child ->]. cbn [rbind].
        destruct (Htargets s e (get_state_in'' n s G) He) as [t ->]. cbn [rbind]. eauto. }
      cbn [rbind].
      destruct (IH (done ++ [n]) ((n, uniq (keqb D) (concat cs)) :: acc)) as [bw [E Hbw]].
      + intros id Hid. apply has_cons. apply in_app_or in Hid as [Hid|[<-|[]]]; auto.
      + intros id Hid. apply Hst. now right.
      + intros l1 id l2 s' E G' e He. rewrite <- app_assoc. cbn [app].
        apply (Htopo (n :: l1) id l2 s'); [cbn [app]; now rewrite E|exact G'|exact He].
      + exists bw. split; [exact E|]. intros id Hid. apply Hbw. rewrite <- app_assoc. exact Hid.
  Qed.

  Variable order : list N.
  Hypothesis Hcover : forall s, In s (au_states A) -> In (a_id s) order.
  Hypothesis Hstates : forall id, In id order -> exists s, get_state A id = Ok s.
  (** parents first *)
  Hypothesis Hparents : forall l1 id l2, order = l1 ++ id :: l2 ->
    forall se, In se (incoming A id) -> In (fst se) l1.
  (** hence children last *)
  Hypothesis Hchildren : forall l1 id l2 s, order = l1 ++ id :: l2 -> get_state A id = Ok s ->
    forall e, In e (a_out s) -> In (e_target e) l2.
  Hypothesis Hcorder : forall s, In s (au_states A) -> exists cts, cons_transitions s = Ok cts.

  Theorem populate_scopes_total : exists sc, populate_scopes D fuel A order = Ok sc.
  Proof.
    unfold populate_scopes.
    destruct (forward_total order [] []) as [fw [-> Hfw]].
    { intros id []. }
    { intros l1 id l2 E se Hse. cbn [app]. eapply Hparents; eauto. }
    cbn [rbind].
    destruct (backward_total (rev order) [] []) as [bw [-> Hbw]].
    { intros id []. }
    { intros id Hid. apply Hstates. now apply in_rev. }
    { intros l1 id l2 s E G e He. cbn [app].
      assert (E' : order = rev l2 ++ id :: rev l1).
      { rewrite <- (rev_involutive order), E, rev_app_distr. cbn [rev]. rewrite <- app_assoc. reflexivity. }
      apply in_rev. eapply Hchildren; eauto. }
    cbn [rbind app] in *.
    match goal with |- exists sc, rmapM ?f ?l = Ok sc => destruct (rmapM_total f l) as [sc [Esc _]]; [|exists sc; exact Esc] end.
    intros s Hs.
    destruct (Hfw (a_id s) (Hcover s Hs)) as [f ->]. cbn [rbind].
    destruct (Hbw (a_id s) (proj1 (in_rev _ _) (Hcover s Hs))) as [b ->]. cbn [rbind].
    destruct (Hcorder s Hs) as [cts Ec]. unfold state_constraint_args. rewrite Ec. cbn [rbind].
    destruct (amb_total (flat_map (fun ct : constraint K P * N => cargs (fst ct)) cts) (intersect_vec D f b)) as [ext ->].
    { intros k Hk. apply in_flat_map in Hk as [[c t] [Hct Hkc]]. cbn [fst] in Hkc.
      destruct (cons_transitions_edge s cts c t Ec Hct) as [e [He [Hc _]]].
      apply (edge_args_incl s e Hs He). unfold edge_args. rewrite Hc. exact Hkc. }
    cbn [rbind]. eauto.
  Qed.
End ScopesTotal.
