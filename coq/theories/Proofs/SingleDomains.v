(** The single-pattern matcher on strings and matrices reports only
    occurrences (C05, soundness half, against Spec/Occ.v). *)
From PM Require Import Model.Prelude Model.Domain Model.Constraint Model.Scheme Model.Matchers
  Model.DomString Model.DomMatrix Spec.TopoSpec Spec.Occ Cert.CharCert
  Proofs.SchemeProofs Proofs.RunSound Proofs.LawfulDomains Proofs.SingleSound
  Proofs.OccString Proofs.OccMatrix Proofs.BindMapMatrixProofs.

Lemma s_req_acyclic : acyclic s_req.
Proof.
  exists (fun k => if N.eqb k 0 then 0 else 1). intros k r. unfold s_req.
  destruct (N.eqb_spec k 0); cbn; [tauto|]. intros [<-|[]]. rewrite N.eqb_refl. lia.
Qed.

Lemma m_req_acyclic : acyclic m_req.
Proof.
  exists (fun k => if mkey_eqb k (0, 0)%Z then 0 else 1). intros k r. unfold m_req.
  destruct (mkey_eqb k (0, 0)%Z) eqn:Ek; cbn; [tauto|]. intros [<-|[]]. vm_compute. lia.
Qed.

(** the requested key list is a good list for retain_keys and covers all keys *)
Lemma s_requested_good fuel keys l :
  all_missing_bindings N.eqb s_req fuel keys [] = Ok l ->
  s_goodb l = true /\ incl keys l.
Proof.
  intros A. destruct (all_missing_ok N.eqb s_req N.eqb_eq fuel keys [] l s_req_acyclic A)
    as [Hnd [Hin [Hpf _]]].
  split.
  - unfold s_goodb. apply andb_true_iff. split; [now apply (nodupb_NoDup N.eqb N.eqb_eq)|].
    destruct l as [|x l']; auto. apply (memb_in N.eqb N.eqb_eq).
    destruct (N.eq_dec x 0) as [->|Hne]; [now left|].
    specialize (Hpf [] x l' eq_refl 0%N). cbn in Hpf. exfalso. apply Hpf.
    + unfold s_req. destruct (N.eqb_spec x 0); [contradiction|now left].
    + tauto.
  - intros k Hk. apply Hin. exists k. split; auto. constructor. tauto.
Qed.

Lemma m_requested_good fuel keys l :
  all_missing_bindings mkey_eqb m_req fuel keys [] = Ok l ->
  m_goodb l = true /\ incl keys l.
Proof.
  intros A. destruct (all_missing_ok mkey_eqb m_req mkey_eqb_spec fuel keys [] l m_req_acyclic A)
    as [Hnd [Hin [Hpf _]]].
  split.
  - unfold m_goodb. apply andb_true_iff. split; [now apply (nodupb_NoDup mkey_eqb mkey_eqb_spec)|].
    destruct l as [|x l']; auto. apply (memb_in mkey_eqb mkey_eqb_spec).
    destruct (mkey_eqb x (0, 0)%Z) eqn:Ex; [apply mkey_eqb_spec in Ex; subst; now left|].
    specialize (Hpf [] x l' eq_refl (0, 0)%Z). cbn in Hpf. exfalso. apply Hpf.
    + unfold m_req. rewrite Ex. now left.
    + tauto.
  - intros k Hk. apply Hin. exists k. split; auto. constructor. tauto.
Qed.

Theorem s_single_sound p h fuel r : p <> [] ->
  single string_dom fuel (s_cvec p) h = Ok r ->
  forall m, In m r -> exists a len, m = SBound a len /\ occ_string p h a
                                   /\ forall c k, In c (s_cvec p) -> In k (cargs c) -> sget m k <> None.
Proof.
  intros Hne S m Hin. unfold single, single_ext in S.
  destruct (requested string_dom fuel [] (s_cvec p)) as [reqk| |] eqn:Rq; cbn in S; try discriminate.
  destruct (s_requested_good _ _ _ Rq) as [Hg Hc].
  assert (Hcov : forall c, In c (s_cvec p) -> incl (cargs c) reqk).
  { intros c Hc' k Hk. apply Hc. apply in_flat_map. eauto. }
  destruct (single_loop_from_empty_sound string_dom (fun _ _ => True) s_goodb string_lawful
              (s_cvec p) reqk Hg Hcov h fuel r S m Hin) as [_ [Hall Hb]].
  destruct (s_constraints_sound p h m Hne Hall) as [a [len [-> Ho]]].
  exists a, len. split; auto. split; auto.
  intros c k Hc' Hk. apply Hb. eapply Hcov; eauto.
Qed.

Theorem m_single_sound p h fuel r :
  single matrix_dom fuel (m_cvec p) h = Ok r ->
  forall m, In m r -> exists s a b, m = MBound s a b /\ occ_matrix p h s
                                   /\ forall c k, In c (m_cvec p) -> In k (cargs c) -> mmget m k <> None.
Proof.
  intros S m Hin. unfold single, single_ext in S.
  destruct (requested matrix_dom fuel [] (m_cvec p)) as [reqk| |] eqn:Rq; cbn in S; try discriminate.
  destruct (m_requested_good _ _ _ Rq) as [Hg Hc].
  assert (Hcov : forall c, In c (m_cvec p) -> incl (cargs c) reqk).
  { intros c Hc' k Hk. apply Hc. apply in_flat_map. eauto. }
  destruct (single_loop_from_empty_sound matrix_dom m_inv m_goodb matrix_lawful
              (m_cvec p) reqk Hg Hcov h fuel r S m Hin) as [Iv [Hall Hb]].
  destruct (m_constraints_sound p h m Iv Hall) as [s [a [b [-> Ho]]]].
  exists s, a, b. split; auto. split; auto.
  intros c k Hc' Hk. apply Hb. eapply Hcov; eauto.
Qed.

(** match_exists = true only if the pattern occurs somewhere *)
Theorem s_match_exists_sound p h fuel : p <> [] ->
  match_exists string_dom fuel (s_cvec p) h = Ok true -> exists a, occ_string p h a.
Proof.
  intros Hne Me. unfold match_exists in Me.
  destruct (single string_dom fuel (s_cvec p) h) as [r| |] eqn:S; cbn in Me; try discriminate.
  destruct r as [|m r']; [discriminate|].
  destruct (s_single_sound p h fuel _ Hne S m (or_introl eq_refl)) as [a [len [_ [Ho _]]]]. eauto.
Qed.

Theorem m_match_exists_sound p h fuel :
  match_exists matrix_dom fuel (m_cvec p) h = Ok true -> exists s, occ_matrix p h s.
Proof.
  intros Me. unfold match_exists in Me.
  destruct (single matrix_dom fuel (m_cvec p) h) as [r| |] eqn:S; cbn in Me; try discriminate.
  destruct r as [|m r']; [discriminate|].
  destruct (m_single_sound p h fuel _ S m (or_introl eq_refl)) as [s [a [b [_ [Ho _]]]]]. eauto.
Qed.
