(** Matrices: from abstract acceptance under the valuation of (host, anchor cell)
    to an actual emission of the traversal (completeness, C02).  Keys are
    assumed non-negative (as produced by every MatrixPattern). *)
From PM Require Import Model.Prelude Model.Domain Model.Constraint Model.BindAll Model.Automaton Model.Traversal
  Model.BindMaps Model.DomString Model.DomMatrix Spec.Extends Spec.Occ Cert.CharCert Cert.WfCheck Cert.WinCheck
  Proofs.BindAllProofs Proofs.BindMapProofs Proofs.BindMapMatrixProofs Proofs.RunSound Proofs.LawfulDomains
  Proofs.CellsProofs Proofs.OccMatrix Proofs.OccProofs Proofs.RunTrace Proofs.ToposortProofs Proofs.WfSound
  Proofs.WinSound Proofs.StringRun Proofs.StringUnique.
Local Open Scope Z_scope.

(** non-negative keys; the host position of key [k] for anchor [s] *)
Definition nn (k : mkey) : Prop := 0 <= fst k /\ 0 <= snd k.
Definition nnb (k : mkey) : bool := (0 <=? fst k) && (0 <=? snd k).
Lemma nnb_nn k : nnb k = true <-> nn k.
Proof. unfold nnb, nn. rewrite andb_true_iff, !Z.leb_le. tauto. Qed.

Definition kpos (s : mval) (k : mkey) : mval := ((fst s + Z.to_N (fst k))%N, (snd s + Z.to_N (snd k))%N).

Lemma add_signed_nn a d : 0 <= d -> add_signed a d = Some (a + Z.to_N d)%N.
Proof.
  intros Hd. unfold add_signed. destruct (Z.ltb_spec (Z.of_N a + d) 0); [lia|]. f_equal. lia.
Qed.

Lemma mpos_nn s k : nn k -> mpos s k = Some (kpos s k).
Proof. intros [H1 H2]. unfold mpos, kpos. now rewrite !add_signed_nn. Qed.

Lemma mmget_box s a b k : nn k -> mmget (MBound s a b) k = if in_box k a b then Some (kpos s k) else None.
Proof.
  intros [H1 H2]. cbn [mmget]. destruct (in_box k a b); [|reflexivity]. now rewrite !add_signed_nn.
Qed.

Definition offb (h : mhost) (s : mval) (k : mkey) : bool :=
  match cell_at h (kpos s k) with Some _ => true | None => false end.

Lemma m_opts_bound h s a b k : nn k -> k <> (0, 0) ->
  m_opts h k (MBound s a b) = Ok (if offb h s k then [kpos s k] else []).
Proof.
  intros [H1 H2] Hk. unfold m_opts. destruct (mkey_eqb k (0, 0)) eqn:E; [apply mkey_eqb_spec in E; contradiction|].
  rewrite !add_signed_nn by auto. unfold offb, kpos. destruct (cell_at h _); reflexivity.
Qed.

(** the bounding box after trying to bind a key list *)
Definition grow (a b k : mkey) : mkey * mkey :=
  ((Z.min (fst a) (fst k), Z.min (snd a) (snd k)), (Z.max (fst b) (fst k), Z.max (snd b) (snd k))).

Fixpoint m_extend (h : mhost) (s : mval) (ks : list mkey) (a b : mkey) : mkey * mkey :=
  match ks with
  | [] => (a, b)
  | k :: ks' =>
      if in_box k a b then m_extend h s ks' a b
      else if offb h s k then let '(a', b') := grow a b k in m_extend h s ks' a' b'
      else m_extend h s ks' a b
  end.

Lemma grow_mono a b k x : inbox x a b -> inbox x (fst (grow a b k)) (snd (grow a b k)).
Proof. unfold inbox, grow. cbn. lia. Qed.

Lemma grow_has a b k : inbox k (fst (grow a b k)) (snd (grow a b k)).
Proof. unfold inbox, grow. cbn. lia. Qed.

Lemma m_extend_mono h s ks : forall a b x, inbox x a b ->
  inbox x (fst (m_extend h s ks a b)) (snd (m_extend h s ks a b)).
Proof.
  induction ks as [|k ks IH]; intros a b x Hx; cbn [m_extend]; auto.
  destruct (in_box k a b); [auto|]. destruct (offb h s k); [|auto].
  destruct (grow a b k) as [a' b'] eqn:G. apply IH. pose proof (grow_mono a b k x Hx). now rewrite G in H.
Qed.

Lemma m_extend_covers h s ks : forall a b k, In k ks -> offb h s k = true ->
  inbox k (fst (m_extend h s ks a b)) (snd (m_extend h s ks a b)).
Proof.
  induction ks as [|k0 ks IH]; intros a b k Hin Ho; [destruct Hin|]. cbn [m_extend].
  destruct Hin as [->|Hin].
  - destruct (in_box k a b) eqn:B.
    + apply m_extend_mono. now apply in_box_iff.
    + rewrite Ho. destruct (grow a b k) as [a' b'] eqn:G. apply m_extend_mono.
      pose proof (grow_has a b k). now rewrite G in H.
  - destruct (in_box k0 a b); [auto|]. destruct (offb h s k0); [|auto].
    destruct (grow a b k0) as [a' b']. auto.
Qed.

Lemma ext_rel_mbound h s inc ks : forall a b, inbox (0, 0) a b -> (forall k, In k ks -> nn k) ->
  (inc = true \/ forall k, In k ks -> offb h s k = true) ->
  ext_rel matrix_dom h inc ks (MBound s a b)
          (MBound s (fst (m_extend h s ks a b)) (snd (m_extend h s ks a b))).
Proof.
  induction ks as [|k ks IH]; intros a b W Hnn Hinc; cbn [m_extend]; [constructor|].
  assert (Hinc' : inc = true \/ forall k0, In k0 ks -> offb h s k0 = true).
  { destruct Hinc as [Hi|Hi]; [now left|right; intros k0 Hk0; apply Hi; now right]. }
  assert (Hnn' : forall k0, In k0 ks -> nn k0) by (intros k0 Hk0; apply Hnn; now right).
  pose proof (Hnn k (or_introl eq_refl)) as Hk.
  destruct (in_box k a b) eqn:B.
  - eapply ext_bound; [|apply IH; auto]. change (mget matrix_dom) with mmget. rewrite mmget_box by auto. rewrite B. reflexivity.
  - assert (Hg : mget matrix_dom (MBound s a b) k = None).
    { change (mget matrix_dom) with mmget. rewrite mmget_box by auto. now rewrite B. }
    assert (Hk0 : k <> (0, 0)).
    { intros ->. apply in_box_iff in W. congruence. }
    destruct (offb h s k) eqn:Ho.
    + destruct (grow a b k) as [a' b'] eqn:G.
      apply (ext_bind matrix_dom h inc k ks (MBound s a b) (MBound s a' b') _ [kpos s k] (kpos s k)).
      * exact Hg.
      * cbn [opts matrix_dom]. rewrite m_opts_bound by auto. now rewrite Ho.
      * now left.
      * cbn [mbind matrix_dom]. unfold mmbind. destruct (mkey_eqb k (0, 0)) eqn:E; [apply mkey_eqb_spec in E; contradiction|].
        unfold grow in G. inversion G; subst. reflexivity.
      * apply IH; auto. pose proof (grow_mono a b k (0, 0) W). now rewrite G in H.
    + destruct Hinc as [->|Hall]; [|specialize (Hall k (or_introl eq_refl)); congruence].
      apply ext_skip; auto.
      cbn [opts matrix_dom]. rewrite m_opts_bound by auto. now rewrite Ho.
Qed.

(** ** the start key *)
Lemma cells_complete (h : mhost) : forall r0 (v : mval) c,
  (r0 <= fst v)%N -> nth_error h (N.to_nat (fst v - r0)) = Some c -> (N.to_nat (snd v) < length c)%nat ->
  In v (all_cells_from h r0).
Proof.
  induction h as [|row rows IH]; intros r0 v c Hle Hn Hc; [destruct (N.to_nat (fst v - r0)); discriminate|].
  cbn [all_cells_from]. apply in_or_app.
  destruct (N.eq_dec (fst v) r0) as [E|Hne].
  - left. rewrite E, N.sub_diag in Hn. cbn in Hn. inversion Hn; subst c.
    apply in_map_iff. exists (snd v). split; [destruct v; cbn in *; now subst|].
    apply nseq_in. lia.
  - right. apply (IH (r0 + 1)%N v c); [lia| |exact Hc].
    replace (N.to_nat (fst v - r0)) with (S (N.to_nat (fst v - (r0 + 1)))) in Hn by lia. exact Hn.
Qed.

Lemma cell_in_all h s : cell_at h s <> None -> In s (all_cells_from h 0).
Proof.
  unfold cell_at. intros Hc. destruct (nth_error h (N.to_nat (fst s))) as [row|] eqn:Hn; [|contradiction].
  apply (cells_complete h 0%N s row); [lia|now rewrite N.sub_0_r|]. apply nth_error_Some. exact Hc.
Qed.

Lemma ext_rel_munbound h s inc ks : cell_at h s <> None -> (forall k, In k ks -> nn k) ->
  (inc = true \/ forall k, In k ks -> offb h s k = true) ->
  ext_rel matrix_dom h inc ((0, 0) :: ks) MUnbound
          (MBound s (fst (m_extend h s ks (0, 0) (0, 0))) (snd (m_extend h s ks (0, 0) (0, 0)))).
Proof.
  intros Hs Hnn Hinc.
  apply (ext_bind matrix_dom h inc (0, 0) ks MUnbound (MBound s (0, 0) (0, 0)) _ (all_cells_from h 0) s).
  - reflexivity.
  - reflexivity.
  - now apply cell_in_all.
  - reflexivity.
  - apply ext_rel_mbound; auto. unfold inbox. cbn. lia.
Qed.

Lemma m_prereq_head (l : list mkey) k ks : prereq_ordered matrix_dom l -> l = k :: ks -> k = (0, 0).
Proof.
  intros [_ Ho] ->. destruct (mkey_eqb k (0, 0)) eqn:E; [now apply mkey_eqb_spec|].
  specialize (Ho [] k ks eq_refl (0, 0)). cbn in Ho. exfalso. apply Ho.
  unfold m_req. rewrite E. now left.
Qed.

Lemma m_prereq_goodb (l : list mkey) : prereq_ordered matrix_dom l -> m_goodb l = true.
Proof.
  intros Hp. unfold m_goodb. apply andb_true_iff. split.
  - apply (nodupb_NoDup mkey_eqb mkey_eqb_spec). apply Hp.
  - destruct l as [|k ks]; auto. rewrite (m_prereq_head _ k ks Hp eq_refl).
    apply (memb_in mkey_eqb mkey_eqb_spec). now left.
Qed.

(** anchored maps *)
Definition anchm (s : mval) (m : mpm) : Prop :=
  m = MUnbound \/ exists a b, m = MBound s a b /\ inbox (0, 0) a b.

Lemma m_retain_unbound order : m_retain order MUnbound = Ok MUnbound.
Proof.
  unfold m_retain. assert (existsb (mmget_panics MUnbound) order = false) as ->.
  { induction order; cbn; auto. }
  unfold retain_rounds_default.
  assert (retain_pending mmget order MUnbound = []) as ->.
  { unfold retain_pending. induction order; cbn; auto. }
  reflexivity.
Qed.

Lemma m_retain_anch h order m m' s :
  m_goodb order = true -> mretain matrix_dom order m = Ok m' -> anchm s m -> cell_at h s <> None ->
  (forall k, In k order -> mmget m' k = mmget m k)
  /\ (order = [] -> m' = MUnbound)
  /\ (m <> MUnbound -> order <> [] -> exists a' b', m' = MBound s a' b' /\ inbox (0, 0) a' b')
  /\ (m = MUnbound -> m' = MUnbound).
Proof.
  intros G R Hm Hs.
  assert (Hinv : m_inv h m).
  { destruct Hm as [->|[a [b [-> W]]]]; [split; exact I|]. split; [exact W|exact Hs]. }
  destruct (law_retain matrix_dom m_inv m_goodb matrix_lawful h order m m' G Hinv R) as [[W' S'] Hk].
  split; [exact Hk|]. split; [|split].
  - intros ->. change (mretain matrix_dom [] m) with (m_retain [] m) in R. unfold m_retain in R. cbn in R. now inversion R.
  - intros Hmu Hne. destruct Hm as [->|[a [b [-> W]]]]; [contradiction|].
    destruct order as [|k ks]; [contradiction|].
    unfold m_goodb in G. apply andb_true_iff in G as [_ G0]. apply (memb_in mkey_eqb mkey_eqb_spec) in G0.
    specialize (Hk (0, 0) G0). change (mget matrix_dom) with mmget in Hk.
    assert (Hnn0 : nn (0, 0)) by (unfold nn; cbn; lia).
    rewrite (mmget_box s a b (0, 0) Hnn0) in Hk. apply in_box_iff in W. rewrite W in Hk.
    destruct m' as [|s' a' b']; [cbn in Hk; discriminate|].
    rewrite (mmget_box s' a' b' (0, 0) Hnn0) in Hk. cbn in W'. apply in_box_iff in W'. rewrite W' in Hk.
    inversion Hk as [[E1 E2]]. unfold kpos in E1, E2. cbn in E1, E2.
    assert (s' = s) by (destruct s, s'; cbn in *; f_equal; lia). subst s'.
    exists a', b'. split; auto. now apply in_box_iff.
  - intros ->. change (mretain matrix_dom order MUnbound) with (m_retain order MUnbound) in R.
    rewrite m_retain_unbound in R. now inversion R.
Qed.

(** ** evaluation of constraints *)
Lemma m_char_of_mpos h s k : m_char_of h s k = match mpos s k with Some p => cell_at h p | None => None end.
Proof.
  unfold m_char_of, mpos. destruct (add_signed (fst s) (fst k)); [|reflexivity].
  destruct (add_signed (snd s) (snd k)); reflexivity.
Qed.

Lemma mval_cvalb h s c : mval_of h s c = cvalb (m_char_of h s) c.
Proof.
  unfold mval_of, cvalb. destruct c as [[|l] args]; cbn [cpred cargs].
  - destruct args as [|k1 [|k2 [|k3 r]]]; cbn [map all_some]; rewrite ?m_char_of_mpos.
    + reflexivity.
    + destruct (mpos s k1); reflexivity.
    + destruct (mpos s k1) as [p1|]; [|reflexivity]. destruct (mpos s k2) as [p2|]; [|destruct (cell_at h p1); reflexivity].
      cbn [m_check]. destruct (cell_at h p1), (cell_at h p2); auto. destruct (N.eqb n n0); reflexivity.
    + destruct (mpos s k1); [|reflexivity]. destruct (mpos s k2); [|reflexivity].
      destruct (mpos s k3); [|reflexivity]. destruct (all_some (map (mpos s) r)); reflexivity.
  - destruct args as [|k1 [|k2 r]]; cbn [map all_some]; rewrite ?m_char_of_mpos.
    + reflexivity.
    + destruct (mpos s k1) as [p1|]; [|reflexivity]. cbn [m_check]. destruct (cell_at h p1); auto.
      destruct (N.eqb n l); reflexivity.
    + destruct (mpos s k1); [|reflexivity]. destruct (mpos s k2); [|reflexivity].
      destruct (all_some (map (mpos s) r)); reflexivity.
Qed.

Lemma mval_args_offered h s c k : mval_of h s c = true -> In k (cargs c) -> nn k -> offb h s k = true.
Proof.
  rewrite mval_cvalb. intros Hv Hk Hn. pose proof (cvalb_args_exist _ _ _ Hv Hk) as He.
  rewrite m_char_of_mpos, (mpos_nn s k Hn) in He. unfold offb. destruct (cell_at h (kpos s k)); [reflexivity|contradiction].
Qed.

Lemma m_resolve_anchored (b : mpm) s args :
  (forall k, In k args -> mmget b k = Some (kpos s k)) ->
  resolve_args matrix_dom b args = inr (map (kpos s) args).
Proof.
  induction args as [|k ks IH]; intros Hg; cbn; [reflexivity|].
  change (mget matrix_dom b k) with (mmget b k). rewrite (Hg k (or_introl eq_refl)).
  rewrite IH; [reflexivity|]. intros k' Hk'. apply Hg. now right.
Qed.

Lemma all_some_map_nn s args : (forall k, In k args -> nn k) -> all_some (map (mpos s) args) = Some (map (kpos s) args).
Proof.
  induction args as [|k ks IH]; intros Hn; [reflexivity|]. cbn [map all_some].
  rewrite (mpos_nn s k (Hn k (or_introl eq_refl))). rewrite IH; [reflexivity|]. intros k' Hk'. apply Hn. now right.
Qed.

Lemma m_sat_of_mval h s c (b : mpm) :
  mval_of h s c = true -> (forall k, In k (cargs c) -> nn k) ->
  (forall k, In k (cargs c) -> mmget b k = Some (kpos s k)) ->
  sat_or_false matrix_dom h c b = Ok true.
Proof.
  intros Hv Hn Hg. unfold sat_or_false, is_satisfied, is_satisfied_calls, rmap.
  rewrite (m_resolve_anchored b s _ Hg). cbn [check matrix_dom rbind].
  unfold mval_of in Hv. rewrite (all_some_map_nn s _ Hn) in Hv.
  destruct (m_check h (cpred c) (map (kpos s) (cargs c))) as [[|]| |]; try discriminate. reflexivity.
Qed.

Lemma m_mval_of_sat h s a b c :
  sat_or_false matrix_dom h c (MBound s a b) = Ok true -> mval_of h s c = true.
Proof. intros Hs. rewrite mval_cvalb. eapply m_holds_cvalb. eapply sat_holds. exact Hs. Qed.

(** ** one step of the traversal on an anchored item *)
Section MatrixStep.
  Variable h : mhost.
  Variable s : mval.
  Hypothesis Hs : cell_at h s <> None.
  Variable st : astate mkey cpredicate.
  Variable cts : list (mconstraint * N).
  Hypothesis Hscope : prereq_ordered matrix_dom (a_scope st).
  Hypothesis Hnn : forall k, In k (a_scope st) -> nn k.
  Hypothesis Hcts : cons_transitions st = Ok cts.
  Hypothesis Hcov : forall c t, In (c, t) cts -> incl (cargs c) (a_scope st).

  Lemma m_step_candidate m ys :
    (anchm s m \/ a_scope st = []) -> next_legal_states matrix_dom h st m = Ok ys ->
    exists b, anchm s b
      /\ (a_scope st <> [] -> exists a' b', b = MBound s a' b' /\ inbox (0, 0) a' b'
            /\ forall k, In k (a_scope st) -> offb h s k = true -> mmget b k = Some (kpos s k))
      /\ exists fired fail,
           filter_sat matrix_dom h b cts = Ok fired
           /\ (if negb (a_det st) || match fired with [] => true | _ => false end
               then fail_next_state st else Ok None) = Ok fail
           /\ (forall t, In t fired -> In (t, b) ys)
           /\ (forall t, fail = Some t -> In (t, b) ys).
  Proof.
    intros Hm N. unfold next_legal_states in N.
    destruct (bind_all matrix_dom h m (a_scope st) true) as [cands| |] eqn:B; cbn [rbind] in N; try discriminate.
    destruct (rmapM (mretain matrix_dom (a_scope st)) cands) as [cands'| |] eqn:R; cbn [rbind] in N; try discriminate.
    rewrite Hcts in N. cbn [rbind] in N.
    pose proof (m_prereq_goodb _ Hscope) as Hg.
    assert (Hc : exists cand, In cand cands /\ (anchm s cand \/ a_scope st = [])
                 /\ (a_scope st <> [] -> exists a' b', cand = MBound s a' b' /\ inbox (0, 0) a' b'
                       /\ forall k, In k (a_scope st) -> offb h s k = true -> inbox k a' b')).
    { apply bind_all_eq_spec in B.
      destruct (a_scope st) as [|k0 ks] eqn:Es.
      - exists m. split; [|split; [now right|intros C; contradiction]].
        cbn in B. inversion B; subst. now left.
      - pose proof (m_prereq_head _ k0 ks Hscope eq_refl) as ->.
        assert (Hnnk : forall k, In k ks -> nn k) by (intros k Hk; apply Hnn; now right).
        assert (H00 : inbox (0, 0) (0, 0) (0, 0)) by (unfold inbox; cbn; lia).
        destruct Hm as [Hm|C]; [|discriminate C].
        destruct Hm as [->|[a [b [-> W]]]].
        + set (bx := m_extend h s ks (0, 0) (0, 0)).
          exists (MBound s (fst bx) (snd bx)). split.
          * apply (extend_rel matrix_dom h true ((0, 0) :: ks) MUnbound cands _ B).
            apply ext_rel_munbound; [exact Hs|exact Hnnk|now left].
          * pose proof (m_extend_mono h s ks (0, 0) (0, 0) (0, 0) H00) as Hw. fold bx in Hw.
            split; [left; right; exists (fst bx), (snd bx); auto|].
            intros _. exists (fst bx), (snd bx). split; auto. split; auto.
            intros k [<-|Hk] Hoff; [exact Hw|]. now apply m_extend_covers.
        + set (bx := m_extend h s ((0, 0) :: ks) a b).
          exists (MBound s (fst bx) (snd bx)). split.
          * apply (extend_rel matrix_dom h true ((0, 0) :: ks) (MBound s a b) cands _ B).
            apply ext_rel_mbound; [exact W| |now left]. intros k [<-|Hk]; [unfold nn; cbn; lia|auto].
          * pose proof (m_extend_mono h s ((0, 0) :: ks) a b (0, 0) W) as Hw. fold bx in Hw.
            split; [left; right; exists (fst bx), (snd bx); auto|].
            intros _. exists (fst bx), (snd bx). split; auto. split; auto.
            intros k Hk Hoff. now apply m_extend_covers. }
    destruct Hc as [cand [Hcin [Hca Hcs]]].
    destruct (rmapM_fwd _ _ _ _ R Hcin) as [b [Rb Hb]].
    (* the retained image of the candidate *)
    assert (Hbprop : anchm s b
              /\ (a_scope st <> [] -> exists a' b', b = MBound s a' b' /\ inbox (0, 0) a' b'
                    /\ forall k, In k (a_scope st) -> offb h s k = true -> mmget b k = Some (kpos s k))).
    { destruct (a_scope st) as [|k0 ks] eqn:Es.
      - change (mretain matrix_dom [] cand) with (m_retain [] cand) in Rb. unfold m_retain in Rb. cbn in Rb.
        inversion Rb; subst. split; [now left|intros C; contradiction].
      - assert (Hne : k0 :: ks <> []) by discriminate.
        destruct Hca as [Hca|C]; [|discriminate C].
        destruct (Hcs Hne) as [a' [b' [-> [W' Hcov']]]].
        destruct (m_retain_anch h _ _ _ s Hg Rb Hca Hs) as [Hk [_ [Hbound _]]].
        destruct (Hbound ltac:(discriminate) Hne) as [a2 [b2 [-> W2]]].
        split; [right; eauto|]. intros _. exists a2, b2. split; auto. split; auto.
        intros k Hk' Hoff. rewrite (Hk k Hk'). rewrite mmget_box by (apply Hnn; first [exact Hk'|rewrite Es; exact Hk']).
        specialize (Hcov' k Hk' Hoff). apply in_box_iff in Hcov'. now rewrite Hcov'. }
    destruct Hbprop as [Hba Hbs].
    exists b. split; [exact Hba|]. split; [exact Hbs|].
    assert (Hfb : exists zs, (let* fired := filter_sat matrix_dom h b cts in
                              let needs_fail := negb (a_det st) || match fired with [] => true | _ => false end in
                              let* fail := if needs_fail then fail_next_state st else Ok None in
                              Ok (map (fun t => (t, b)) fired ++ match fail with Some t => [(t, b)] | None => [] end)) = Ok zs
                             /\ forall y, In y zs -> In y ys).
    { clear - N Hb. revert ys N. induction cands' as [|c0 l IHl]; intros ys N; [destruct Hb|].
      cbn [rflatM] in N.
      match type of N with rbind ?e _ = _ => destruct e as [z0| |] eqn:E0 end; cbn [rbind] in N; try discriminate.
      destruct (rflatM _ l) as [zs'| |] eqn:E1; cbn [rbind] in N; try discriminate.
      inversion N; subst. destruct Hb as [->|Hb].
      - exists z0. split; [exact E0|]. intros y Hy. apply in_or_app. now left.
      - destruct (IHl Hb zs' eq_refl) as [zs [Hz1 Hz2]]. exists zs. split; auto.
        intros y Hy. apply in_or_app. right. auto. }
    destruct Hfb as [zs [Hz Hsub]].
    destruct (filter_sat matrix_dom h b cts) as [fired| |] eqn:FS; cbn [rbind] in Hz; try discriminate.
    destruct (if negb (a_det st) || match fired with [] => true | _ => false end then fail_next_state st else Ok None)
      as [fail| |] eqn:FN; cbn [rbind] in Hz; try discriminate.
    inversion Hz; subst zs. exists fired, fail. split; auto. split; auto. split.
    + intros t Ht. apply Hsub. apply in_or_app. left. apply in_map_iff. exists t. auto.
    + intros t ->. apply Hsub. apply in_or_app. right. now left.
  Qed.

  Lemma m_step_cons m ys c t :
    (anchm s m \/ a_scope st = []) -> next_legal_states matrix_dom h st m = Ok ys ->
    In (c, t) cts -> mval_of h s c = true ->
    exists b, In (t, b) ys /\ anchm s b.
  Proof.
    intros Hm N Hin Hv. destruct (m_step_candidate m ys Hm N) as [b [Hba [Hsc [fired [fail [FS [FN [Hf Hfail]]]]]]]].
    exists b. split; auto. apply Hf.
    eapply filter_sat_fwd; [exact FS|exact Hin|].
    assert (Hne : a_scope st <> []).
    { intros C. pose proof (Hcov c t Hin) as Hi. rewrite C in Hi.
      rewrite mval_cvalb in Hv. unfold cvalb in Hv. destruct c as [[|l] [|k ks]]; cbn in Hv; try discriminate;
        apply (Hi k); now left. }
    destruct (Hsc Hne) as [a' [b' [-> [W Hget]]]].
    apply (m_sat_of_mval h s c); auto.
    - intros k Hk. apply Hnn. eapply Hcov; eauto.
    - intros k Hk. apply Hget; [eapply Hcov; eauto|].
      eapply mval_args_offered; eauto. apply Hnn. eapply Hcov; eauto.
  Qed.

  Lemma m_step_eps m ys t :
    (anchm s m \/ a_scope st = []) -> next_legal_states matrix_dom h st m = Ok ys ->
    fail_next_state st = Ok (Some t) ->
    (a_det st = false \/ forallb (fun ct => negb (mval_of h s (fst ct))) cts = true) ->
    exists b, In (t, b) ys /\ anchm s b.
  Proof.
    intros Hm N Hfn Hd. destruct (m_step_candidate m ys Hm N) as [b [Hba [Hsc [fired [fail [FS [FN [Hf Hfail]]]]]]]].
    exists b. split; auto. apply Hfail.
    assert (Hneeds : negb (a_det st) || match fired with [] => true | _ => false end = true).
    { destruct Hd as [->|Hall]; [reflexivity|]. apply orb_true_iff. right.
      destruct fired as [|t0 fr]; auto. exfalso.
      destruct (filter_sat_in matrix_dom _ _ _ _ t0 FS (or_introl eq_refl)) as [c0 [Hc0 Hs0]].
      rewrite forallb_forall in Hall. specialize (Hall _ Hc0). cbn in Hall. apply negb_true_iff in Hall.
      destruct Hba as [->|[a' [b' [-> W]]]].
      - pose proof (sat_holds matrix_dom h c0 MUnbound Hs0) as [vs [Rv Ck]].
        destruct c0 as [[|l] [|k ks]]; cbn in Rv, Ck; try discriminate.
      - rewrite (m_mval_of_sat h s a' b' c0 Hs0) in Hall. discriminate. }
    rewrite Hneeds in FN. rewrite Hfn in FN. now inversion FN.
  Qed.
End MatrixStep.

(** ** emission at an accepting state *)
Lemma m_emission h s (st : astate mkey cpredicate) m e pid keys :
  cell_at h s <> None -> In (pid, keys) (a_matches st) -> prereq_ordered matrix_dom keys -> keys <> [] ->
  (forall k, In k keys -> nn k) -> (forall k, In k keys -> offb h s k = true) ->
  anchm s m -> emissions matrix_dom h st m = Ok e ->
  exists a b, In (pid, MBound s a b) e.
Proof.
  intros Hs Hin Hord Hne Hnn Hoff Hm Em. unfold emissions in Em.
  assert (Hsub : exists e1,
     (let new_keys := filter (fun k => match mget matrix_dom m k with None => true | Some _ => false end) keys in
      let* bs := match new_keys with [] => Ok [m] | _ => bind_all matrix_dom h m new_keys false end in
      let* bs' := rmapM (mretain matrix_dom keys) bs in
      Ok (map (fun b => (pid, b)) bs')) = Ok e1 /\ forall y, In y e1 -> In y e).
  { clear - Em Hin. revert e Em. induction (a_matches st) as [|pk l IHl]; intros e Em; [destruct Hin|].
    cbn [rflatM] in Em.
    match type of Em with rbind ?x _ = _ => destruct x as [z0| |] eqn:E0 end; cbn [rbind] in Em; try discriminate.
    destruct (rflatM _ l) as [zs'| |] eqn:E1; cbn [rbind] in Em; try discriminate.
    inversion Em; subst. destruct Hin as [->|Hin].
    - exists z0. split; [exact E0|]. intros y Hy. apply in_or_app. now left.
    - destruct (IHl Hin zs' eq_refl) as [e1 [H1 H2]]. exists e1. split; auto.
      intros y Hy. apply in_or_app. right. auto. }
  destruct Hsub as [e1 [He1 Hsub]]. cbn zeta in He1.
  set (new_keys := filter (fun k => match mget matrix_dom m k with None => true | Some _ => false end) keys) in He1.
  destruct (match new_keys with [] => Ok [m] | _ => bind_all matrix_dom h m new_keys false end) as [bs| |] eqn:B;
    cbn [rbind] in He1; try discriminate.
  destruct (rmapM (mretain matrix_dom keys) bs) as [bs'| |] eqn:R; cbn [rbind] in He1; try discriminate.
  inversion He1; subst e1.
  pose proof (m_prereq_goodb _ Hord) as Hg.
  assert (Hc : exists a b, inbox (0, 0) a b /\ In (MBound s a b) bs).
  { destruct Hm as [->|[a [b [-> W]]]].
    - assert (new_keys = keys) as Enk.
      { unfold new_keys. clear. induction keys as [|k ks IH]; [reflexivity|]. cbn [filter].
        destruct (mget matrix_dom MUnbound k) eqn:E; [cbn in E; discriminate E|]. f_equal. exact IH. }
      rewrite Enk in B. destruct keys as [|k0 ks] eqn:Ek; [contradiction|].
      pose proof (m_prereq_head _ k0 ks Hord eq_refl) as ->.
      apply bind_all_eq_spec in B.
      set (bx := m_extend h s ks (0, 0) (0, 0)).
      exists (fst bx), (snd bx). split.
      + apply m_extend_mono. unfold inbox. cbn. lia.
      + apply (extend_rel matrix_dom h false ((0, 0) :: ks) MUnbound bs _ B).
        apply ext_rel_munbound; [exact Hs|intros k Hk; apply Hnn; now right|right; intros k Hk; apply Hoff; now right].
    - destruct new_keys as [|k1 nk] eqn:Enk.
      + inversion B; subst. exists a, b. split; auto. now left.
      + apply bind_all_eq_spec in B.
        assert (Hsubk : forall k, In k (k1 :: nk) -> In k keys).
        { intros k Hk. assert (In k new_keys) by (rewrite Enk; exact Hk). unfold new_keys in H. apply filter_In in H. tauto. }
        set (bx := m_extend h s (k1 :: nk) a b).
        exists (fst bx), (snd bx). split; [now apply m_extend_mono|].
        apply (extend_rel matrix_dom h false (k1 :: nk) (MBound s a b) bs _ B).
        apply ext_rel_mbound; [exact W|intros k Hk; apply Hnn; auto|right; intros k Hk; apply Hoff; auto]. }
  destruct Hc as [a [b [W Hcin]]].
  destruct (rmapM_fwd _ _ _ _ R Hcin) as [b' [Rb Hb]].
  assert (Hca : anchm s (MBound s a b)) by (right; eauto).
  destruct (m_retain_anch h _ _ _ s Hg Rb Hca Hs) as [_ [_ [Hbound _]]].
  destruct (Hbound ltac:(discriminate) Hne) as [a2 [b2 [-> W2]]].
  exists a2, b2. apply Hsub. apply in_map_iff. exists (MBound s a2 b2). auto.
Qed.

Lemma uniq_acc_in_gen {X} (eqb : X -> X -> bool) (spec : forall a b, eqb a b = true <-> a = b) l :
  forall seen x, In x l -> In x seen \/ In x (uniq_acc eqb seen l).
Proof.
  induction l as [|y l IH]; intros seen x Hi; [destruct Hi|]. cbn [uniq_acc].
  destruct (memb eqb y seen) eqn:Em.
  - destruct Hi as [->|Hi]; [left; now apply (memb_in eqb spec)|auto].
  - destruct Hi as [->|Hi]; [right; now left|].
    destruct (IH (y :: seen) x Hi) as [[->|H1]|H1]; [right; now left|now left|right; now right].
Qed.

Lemma uniq_in_gen {X} (eqb : X -> X -> bool) (spec : forall a b, eqb a b = true <-> a = b) l x :
  In x l -> In x (uniq eqb l).
Proof. intros Hi. unfold uniq. destruct (uniq_acc_in_gen eqb spec l [] x Hi) as [[]|H]. exact H. Qed.

(** ** from abstract reachability to the expanded items of the run *)
Section MatrixComplete.
  Variable A : automaton mkey cpredicate.
  Variable ids : list N.
  Hypothesis HWF : WF matrix_dom A ids.
  Hypothesis HNN : m_keys_nn A = true.
  Variable h : mhost.
  Variable s : mval.
  Hypothesis Hs : cell_at h s <> None.
  Variable T : list (N * mpm).
  Hypothesis Troot : in_keys matrix_dom A (au_root A, MUnbound) T.
  Hypothesis Tclosed : forall x ys y, In x T -> succ_of matrix_dom A h x ys -> In y ys -> in_keys matrix_dom A y T.
  Hypothesis Tsucc : forall x, In x T -> exists ys e, succ_of matrix_dom A h x ys /\ emit_of matrix_dom A h x e.
  Hypothesis Twf : forall x, In x T -> mm_wf (snd x).

  Lemma scope_nn st k : In st (au_states A) -> In k (a_scope st) -> nn k.
  Proof.
    intros Hst Hk. unfold m_keys_nn in HNN. rewrite forallb_forall in HNN. specialize (HNN st Hst).
    apply andb_true_iff in HNN as [H1 _]. apply andb_true_iff in H1 as [H1 _].
    rewrite forallb_forall in H1. apply nnb_nn. apply (H1 k Hk).
  Qed.

  Lemma match_nn st pk k : In st (au_states A) -> In pk (a_matches st) -> In k (snd pk) -> nn k.
  Proof.
    intros Hst Hpk Hk. unfold m_keys_nn in HNN. rewrite forallb_forall in HNN. specialize (HNN st Hst).
    apply andb_true_iff in HNN as [H1 _]. apply andb_true_iff in H1 as [_ H2].
    rewrite forallb_forall in H2. specialize (H2 pk Hpk). rewrite forallb_forall in H2. apply nnb_nn. apply (H2 k Hk).
  Qed.

  Definition mgood_item (x : N * mpm) : Prop :=
    forall st, get_state A (fst x) = Ok st -> anchm s (snd x) \/ ~ In (0, 0) (useful_keys matrix_dom st).

  Lemma mtransfer y0 t b :
    In y0 T -> same_key matrix_dom A y0 (t, b) -> anchm s b -> fst y0 = t /\ mgood_item y0.
  Proof.
    intros Hy [Ef V] Hb. split; [exact Ef|]. intros st G.
    destruct (in_dec (fun x y => match mkey_eqb x y as r return (mkey_eqb x y = r -> {x = y} + {x <> y}) with
                                 | true => fun E => left (proj1 (mkey_eqb_spec x y) E)
                                 | false => fun E => right (proj1 (mkey_eqb_false x y) E)
                                 end eq_refl) (0, 0) (useful_keys matrix_dom st)) as [Hin|Hn]; [left|now right].
    specialize (V st G). unfold view in V. cbn [snd] in V.
    pose proof (ext_in_map V (0, 0) Hin) as E0. change (mmget (snd y0) (0, 0) = mmget b (0, 0)) in E0.
    pose proof (Twf y0 Hy) as W. assert (Hnn0 : nn (0, 0)) by (unfold nn; cbn; lia).
    destruct (snd y0) as [|s' a' b']; [now left|]. right. cbn in W.
    rewrite (mmget_box s' a' b' (0, 0) Hnn0) in E0. apply in_box_iff in W. rewrite W in E0.
    destruct Hb as [->|[a [b0 [-> Wb]]]]; [cbn in E0; discriminate|].
    rewrite (mmget_box s a b0 (0, 0) Hnn0) in E0. apply in_box_iff in Wb. rewrite Wb in E0.
    inversion E0 as [[E1 E2]]. unfold kpos in E1, E2. cbn in E1, E2.
    assert (s' = s) by (destruct s, s'; cbn in *; f_equal; lia). subst s'.
    exists a', b'. split; auto. now apply in_box_iff.
  Qed.

  Lemma mgood_step x st : mgood_item x -> get_state A (fst x) = Ok st ->
    anchm s (snd x) \/ a_scope st = [].
  Proof.
    intros Hg G. destruct (Hg st G) as [Hm|Hn]; [now left|right].
    destruct (get_state_in _ _ _ G) as [Hin _].
    pose proof (wf_scope_ordered _ _ _ HWF st Hin) as Ho.
    destruct (a_scope st) as [|k ks] eqn:Es; auto.
    exfalso. apply Hn. unfold useful_keys. rewrite Es.
    rewrite (m_prereq_head _ k ks Ho eq_refl). now left.
  Qed.

  Lemma mreach_item t : areach (mval_of h s) A t -> exists x, In x T /\ fst x = t /\ mgood_item x.
  Proof.
    induction 1 as [|t st cts c t' Hr IH G CT Hin Hv|t st cts t' Hr IH G CT FN Hd].
    - destruct Troot as [y0 [Hy Hk]]. destruct (mtransfer y0 _ _ Hy Hk (or_introl eq_refl)) as [E1 E2].
      exists y0. auto.
    - destruct IH as [x [Hx [Ex Hg]]]. destruct (Tsucc x Hx) as [ys [e [[st0 [G0 NL]] _]]].
      rewrite Ex in G0. rewrite G in G0. inversion G0; subst st0.
      destruct (get_state_in _ _ _ G) as [Hst _].
      assert (Hcov : forall c t, In (c, t) cts -> incl (cargs c) (a_scope st)).
      { intros c' t0 Hin'. destruct (cons_transitions_edge st cts c' t0 CT Hin') as [e' [He1 [He2 _]]].
        eapply (wf_scope_covers _ _ _ HWF); eauto. }
      destruct (m_step_cons h s Hs st cts (wf_scope_ordered _ _ _ HWF st Hst) (fun k => scope_nn st k Hst) CT Hcov (snd x) ys c t') as [b [Hb Hab]]; auto.
      { apply mgood_step; auto. now rewrite Ex. }
      destruct (Tclosed x ys (t', b) Hx) as [y0 [Hy Hk]]; auto.
      { exists st. rewrite Ex. auto. }
      destruct (mtransfer y0 _ _ Hy Hk Hab). exists y0. auto.
    - destruct IH as [x [Hx [Ex Hg]]]. destruct (Tsucc x Hx) as [ys [e [[st0 [G0 NL]] _]]].
      rewrite Ex in G0. rewrite G in G0. inversion G0; subst st0.
      destruct (get_state_in _ _ _ G) as [Hst _].
      assert (Hcov : forall c t, In (c, t) cts -> incl (cargs c) (a_scope st)).
      { intros c' t0 Hin'. destruct (cons_transitions_edge st cts c' t0 CT Hin') as [e' [He1 [He2 _]]].
        eapply (wf_scope_covers _ _ _ HWF); eauto. }
      destruct (m_step_eps h s Hs st cts (wf_scope_ordered _ _ _ HWF st Hst) (fun k => scope_nn st k Hst) CT Hcov (snd x) ys t') as [b [Hb Hab]]; auto.
      { apply mgood_step; auto. now rewrite Ex. }
      destruct (Tclosed x ys (t', b) Hx) as [y0 [Hy Hk]]; auto.
      { exists st. rewrite Ex. auto. }
      destruct (mtransfer y0 _ _ Hy Hk Hab). exists y0. auto.
  Qed.

  Lemma maccept_emits p :
    aaccepts (mval_of h s) A p ->
    (forall st keys, In st (au_states A) -> In (p, keys) (a_matches st) ->
       keys <> [] /\ forall k, In k keys -> offb h s k = true) ->
    exists x e a b, In x T /\ emit_of matrix_dom A h x e /\ In (p, MBound s a b) e.
  Proof.
    intros [t [st [Hr [G Hp]]]] Hkeys.
    apply in_map_iff in Hp as [[p' keys] [Ep Hpk]]. cbn in Ep. subst p'.
    destruct (get_state_in _ _ _ G) as [Hst _].
    destruct (Hkeys st keys Hst Hpk) as [Hne Hoff].
    pose proof (wf_match_ordered _ _ _ HWF st (p, keys) Hst Hpk) as Ho. cbn in Ho.
    destruct (mreach_item t Hr) as [x [Hx [Ex Hg]]].
    destruct (Tsucc x Hx) as [ys [e [_ [st0 [G0 EM]]]]].
    pose proof G0 as G0'. rewrite Ex in G0'. rewrite G in G0'. inversion G0'; subst st0.
    assert (Hm : anchm s (snd x)).
    { rewrite <- Ex in G. destruct (Hg st G) as [Hm|Hn]; auto. exfalso. apply Hn.
      unfold useful_keys. apply in_or_app. right. unfold unique_keys.
      apply (uniq_in_gen mkey_eqb mkey_eqb_spec). apply in_flat_map. exists (p, keys). split; auto. cbn.
      destruct keys as [|k ks]; [contradiction|]. rewrite (m_prereq_head _ k ks Ho eq_refl). now left. }
    destruct (m_emission h s st (snd x) e p keys Hs Hpk Ho Hne (fun k Hk => match_nn st (p, keys) k Hst Hpk Hk) Hoff Hm EM)
      as [a [b HinL]].
    exists x, e, a, b. split; auto. split; auto. exists st. auto.
  Qed.
End MatrixComplete.

(** ** the whole run *)
Lemma m_succ_inv (A : automaton mkey cpredicate) ids h x ys y :
  WF matrix_dom A ids -> m_inv h (snd x) -> succ_of matrix_dom A h x ys -> In y ys -> m_inv h (snd y).
Proof.
  intros HWF Hi [st [G NL]] Hy. destruct y as [t b].
  destruct (StringUnique.next_legal_inv matrix_dom h st (snd x) ys t b NL Hy) as [cands [cand [cts [B [Hc [Rm _]]]]]].
  destruct (get_state_in _ _ _ G) as [Hst _].
  destruct (bind_all_le matrix_dom m_inv m_goodb matrix_lawful h _ _ _ _ _ B Hc) as [_ Hci].
  pose proof (m_prereq_goodb _ (wf_scope_ordered _ _ _ HWF st Hst)) as Hg.
  cbn [snd]. apply (law_retain matrix_dom m_inv m_goodb matrix_lawful h _ _ _ Hg (Hci Hi) Rm).
Qed.

Theorem m_run_complete (A : automaton mkey cpredicate) ids h s fuel ms p :
  WF matrix_dom A ids -> m_keys_nn A = true -> run matrix_dom fuel A h = Ok ms -> cell_at h s <> None ->
  aaccepts (mval_of h s) A p ->
  (forall st keys, In st (au_states A) -> In (p, keys) (a_matches st) ->
     keys <> [] /\ forall k, In k keys -> offb h s k = true) ->
  exists a b, In (p, MBound s a b) ms.
Proof.
  intros HWF HNN R Hs Hacc Hkeys.
  destruct (run_trace matrix_dom matrix_dom_eq A h fuel ms R) as [T [T1 [T2 [T3 [T4 [T5 _]]]]]].
  assert (Twf : forall x, In x T -> mm_wf (snd x)).
  { intros x Hx. apply (T5 (fun x => m_inv h (snd x))); auto.
    - intros x0 ys y Hi Hsx Hy. eapply m_succ_inv; eauto.
    - split; exact I. }
  destruct (maccept_emits A ids HWF HNN h s Hs T T1 T2 T4 Twf p Hacc Hkeys) as [x [e [a [b [Hx [He HL]]]]]].
  exists a, b. eapply T3; eauto.
Qed.

Lemma offb_start h s : cell_at h s <> None -> offb h s (0, 0) = true.
Proof.
  intros Hs. unfold offb, kpos. cbn. rewrite !N.add_0_r. destruct s as [r c]. cbn. destruct (cell_at h (r, c)); [reflexivity|contradiction].
Qed.

Lemma m_keys_tight_offered (A : automaton mkey cpredicate) cs i cp h s :
  m_keys_tight A cs = true -> m_keys_nn A = true -> nth_error cs i = Some cp -> cp <> [] ->
  (forall d, In d cp -> mval_of h s d = true) -> cell_at h s <> None ->
  forall st keys, In st (au_states A) -> In (N.of_nat i, keys) (a_matches st) ->
    keys <> [] /\ forall k, In k keys -> offb h s k = true.
Proof.
  intros Ht HNN Hi Hne Hv Hs st keys Hst Hpk.
  unfold m_keys_tight, keys_tight in Ht. rewrite forallb_forall in Ht. specialize (Ht st Hst).
  rewrite forallb_forall in Ht. specialize (Ht _ Hpk). cbn [fst snd] in Ht.
  rewrite Nnat.Nat2N.id, Hi in Ht. apply andb_true_iff in Ht as [H1 H2]. split.
  - intros ->. destruct cp; [contradiction|discriminate].
  - intros k Hk. rewrite forallb_forall in H2. specialize (H2 k Hk).
    apply orb_true_iff in H2 as [H0|Hex].
    + apply mkey_eqb_spec in H0. subst k. now apply offb_start.
    + apply existsb_exists in Hex as [c [Hc Hm]]. apply (memb_in mkey_eqb mkey_eqb_spec) in Hm.
      apply (mval_args_offered h s c k (Hv c Hc) Hm).
      unfold m_keys_nn in HNN. rewrite forallb_forall in HNN. specialize (HNN st Hst).
      apply andb_true_iff in HNN as [H1' _]. apply andb_true_iff in H1' as [_ H2'].
      rewrite forallb_forall in H2'. specialize (H2' _ Hpk). rewrite forallb_forall in H2'. apply nnb_nn. apply (H2' k Hk).
Qed.

(** the property: every occurrence of every compiled pattern is reported *)
Theorem m_complete (A : automaton mkey cpredicate) rk ids pats present fuel h ms i p s :
  wf_check matrix_dom A rk ids = true ->
  cert_complete (char_entails mkey_eqb) (char_refutes mkey_eqb) A (map m_cvec pats) present = true ->
  m_keys_tight A (map m_cvec pats) = true -> m_keys_nn A = true ->
  nth_error pats i = Some p -> nth_error present i = Some true ->
  occ_matrix p h s ->
  run matrix_dom fuel A h = Ok ms ->
  exists a b, In (N.of_nat i, MBound s a b) ms.
Proof.
  intros Hwf Hcc Hkt HNN Hp Hpr [Hs Hocc] R.
  assert (Hcs : nth_error (map m_cvec pats) i = Some (m_cvec p)) by (rewrite nth_error_map, Hp; reflexivity).
  assert (Hv : forall d, In d (m_cvec p) -> mval_of h s d = true).
  { assert (Hall : forallb (cvalb (m_char_of h s)) (m_cvec p) = true).
    { apply m_cvec_occ. split; [now apply OccProofs.occ_env_iff|]. intros _.
      rewrite m_char_of_mpos, (mpos_nn s (0, 0)) by (unfold nn; cbn; lia).
      unfold kpos. cbn. rewrite !N.add_0_r. destruct s. exact Hs. }
    rewrite forallb_forall in Hall. intros d Hd. rewrite mval_cvalb. auto. }
  pose proof (wf_check_sound matrix_dom matrix_dom_eq A rk _ Hwf) as HWF.
  eapply (m_run_complete A _ h s fuel ms (N.of_nat i) HWF HNN R Hs).
  - eapply cert_complete_sound; eauto.
    + apply m_entails_sound.
    + apply m_refutes_sound.
  - eapply m_keys_tight_offered; eauto. apply m_cvec_nonempty.
Qed.
