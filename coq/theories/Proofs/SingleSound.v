(** Soundness of the single-pattern matcher (C05, generic over the domain):
    every binding returned by [single] satisfies every constraint of the
    pattern and binds every requested key. *)
From PM Require Import Model.Prelude Model.Domain Model.Constraint Model.BindAll Model.Scheme
  Model.Matchers Spec.Extends Proofs.BindAllProofs Proofs.RunSound.

Section SingleSound.
  Context {K V M H P : Type} (D : DomOps K V M H P) (E : DomEq D).
  Variable Inv : H -> M -> Prop.
  Variable goodb : list K -> bool.
  Hypothesis LAW : Lawful D Inv goodb.
  Notation C := (constraint K P).

  Lemma filter_satb_in h c ms r m :
    filter_satb D h c ms = Ok r -> In m r -> In m ms /\ sat_or_false D h c m = Ok true.
  Proof.
    revert r. induction ms as [|x ms IH]; intros r R Hin; cbn in R.
    - inversion R; subst. destruct Hin.
    - destruct (sat_or_false D h c x) as [b| |] eqn:S; cbn in R; try discriminate.
      destruct (filter_satb D h c ms) as [r'| |] eqn:R'; cbn in R; try discriminate.
      inversion R; subst. destruct b.
      + destruct Hin as [<-|Hin]; [split; [now left|exact S]|].
        destruct (IH r' eq_refl Hin). split; [now right|auto].
      + destruct (IH r' eq_refl Hin). split; [now right|auto].
  Qed.

  Variable cs : list C.
  Variable reqk : list K.
  Hypothesis reqk_good : goodb reqk = true.
  Hypothesis reqk_covers : forall c, In c cs -> incl (cargs c) reqk.

  Definition sitem_ok (h : H) (it : list C * M) : Prop :=
    Inv h (snd it) /\ exists done, cs = done ++ fst it /\ forall c, In c done -> holds D h c (snd it).

  Definition sres_ok (h : H) (m : M) : Prop :=
    Inv h m /\ (forall c, In c cs -> holds D h c m)
    /\ forall k, In k reqk -> mget D m k <> None.

  Lemma single_loop_sound h : forall fuel queue acc r,
    Forall (sitem_ok h) queue -> (forall m, In m acc -> sres_ok h m) ->
    single_loop D fuel h reqk queue acc = Ok r -> forall m, In m r -> sres_ok h m.
  Proof.
    induction fuel as [|f IH]; intros queue acc r Q Acc R m Hin; cbn in R; [discriminate|].
    destruct queue as [|[rest m0] q].
    - inversion R; subst. apply Acc. now apply in_rev.
    - inversion Q as [|x l Hit Hq]; subst. destruct Hit as [I0 [done [Ecs Hd]]]. cbn in *.
      destruct rest as [|c rest].
      + set (missing := filter (fun k => match mget D m0 k with None => true | Some _ => false end) reqk) in R.
        destruct (bind_all D h m0 missing false) as [bs| |] eqn:B; cbn in R; try discriminate.
        destruct (rmapM (mretain D reqk) bs) as [bs'| |] eqn:Rt; cbn in R; try discriminate.
        eapply IH; [exact Hq| |exact R|exact Hin].
        intros m1 H1. apply in_app_or in H1 as [H1|H1]; auto.
        apply in_rev in H1. apply filter_In in H1 as [H1 Fb].
        destruct (rmapM_in _ _ _ _ Rt H1) as [m2 [Hm2 Rm]].
        destruct (bind_all_le D Inv goodb LAW _ _ _ _ _ _ B Hm2) as [L2 I2].
        destruct (law_retain D Inv goodb LAW h _ _ _ reqk_good (I2 I0) Rm) as [I' Ag].
        split; [exact I'|]. split.
        * intros c Hc. apply (holds_agree D h c m2 m1).
          -- intros k Hk. apply Ag. eapply reqk_covers; eauto.
          -- eapply holds_le; [exact L2|]. apply Hd. rewrite app_nil_r in Ecs. now subst.
        * intros k Hk. rewrite forallb_forall in Fb. specialize (Fb _ Hk).
          destruct (mget D m1 k); [discriminate|discriminate].
      + destruct (amb D (S f) (cargs c)) as [keys| |] eqn:Ak; cbn in R; try discriminate.
        destruct (bind_all D h m0 keys false) as [cands| |] eqn:B; cbn in R; try discriminate.
        destruct (filter_satb D h c cands) as [ok| |] eqn:Fs; cbn in R; try discriminate.
        eapply IH; [| |exact R|exact Hin]; auto.
        apply Forall_app. split; auto. apply Forall_forall. intros [rest' b] Hb.
        apply in_map_iff in Hb as [b' [Eb Hb']]. inversion Eb; subst.
        destruct (filter_satb_in _ _ _ _ _ Fs Hb') as [Hc Sat].
        destruct (bind_all_le D Inv goodb LAW _ _ _ _ _ _ B Hc) as [L1 I1].
        split; [apply I1; exact I0|]. exists (done ++ [c]). cbn. split.
        * rewrite <- app_assoc. exact Ecs.
        * intros c' Hc'. apply in_app_or in Hc' as [Hc'|[<-|[]]].
          -- eapply holds_le; eauto.
          -- now apply sat_holds.
  Qed.

  Theorem single_loop_from_empty_sound h fuel r :
    single_loop D fuel h reqk [(cs, mempty D)] [] = Ok r -> forall m, In m r -> sres_ok h m.
  Proof.
    apply single_loop_sound.
    - constructor; [|constructor]. split; [apply (law_inv_empty D Inv goodb LAW)|].
      exists []. split; auto. intros c [].
    - intros m [].
  Qed.
End SingleSound.
