(** C10: the powerset tree is faithful also under the deterministic reading of its
    root (Spec/TreeDet.v): the children of the root are not exclusive, but the
    subtree of the first satisfied one repeats every later constraint.
    Soundness is inherited from the non-deterministic reading (what is reached
    deterministically is reached); completeness is a second invariant of the
    loop: a queue item at the root only counts while no child of the root is
    satisfied. *)
From PM Require Import Model.Prelude Model.CTree Spec.TreeSem Spec.TreeDet Proofs.TreeProofs Proofs.PowersetProofs.

Section PowersetDet.
  Context {C : Type} (ceqb : C -> C -> bool) (conditioned : C -> list C -> option C) (v : C -> bool).
  Notation tnode := (tnode C).
  Notation ctree := (ctree C).
  Variable cs : list (C * nat).
  Hypothesis ceqb_v : forall a b, ceqb a b = true -> v a = v b.
  Hypothesis cond_equiv : forall c sat,
    In c (map fst cs) -> incl sat (map fst cs) -> (forall s, In s sat -> v s = true) ->
    match conditioned c sat with None => v c = true | Some c' => v c' = v c end.

  Definition children_of (t : ctree) (n : nat) : option (list (C * nat)) :=
    option_map (@tn_children C) (nth_error (ct_nodes t) n).

  (** ** monotonicity of deterministic reachability *)
  Definition ext_children (t t' : ctree) : Prop :=
    forall n ch, children_of t n = Some ch -> exists ch', children_of t' n = Some (ch ++ ch').

  Lemma children_of_some t n ch : children_of t n = Some ch ->
    exists nd, nth_error (ct_nodes t) n = Some nd /\ tn_children nd = ch.
  Proof. unfold children_of. destruct (nth_error (ct_nodes t) n) as [nd|]; cbn; [|discriminate]. intros E. inversion E. eauto. Qed.

  Lemma dreach_up t t' m : ext_children t t' -> dreach v t m -> dreach v t' m.
  Proof.
    intros Hx. induction 1 as [|root l1 c k l2 Hr E Hv Hf|n nd c m Hn0 _ IH Hn Hin Hv]; [constructor| |].
    - destruct (Hx 0 (tn_children root)) as [ch' E']; [unfold children_of; now rewrite Hr|].
      destruct (children_of_some _ _ _ E') as [root' [Hr' Ec']].
      eapply dr_first; [exact Hr'| |exact Hv|exact Hf]. rewrite Ec', E, <- app_assoc. reflexivity.
    - destruct (Hx n (tn_children nd)) as [ch' E']; [unfold children_of; now rewrite Hn|].
      destruct (children_of_some _ _ _ E') as [nd' [Hn' Ec']].
      eapply dr_child; [exact Hn0|exact IH|exact Hn'| |exact Hv]. rewrite Ec'. apply in_or_app. now left.
  Qed.

  Lemma ext_refl t : ext_children t t.
  Proof. intros n ch E. exists []. now rewrite app_nil_r. Qed.

  Lemma ext_trans a b c : ext_children a b -> ext_children b c -> ext_children a c.
  Proof.
    intros H1 H2 n ch E. destruct (H1 n ch E) as [ch1 E1]. destruct (H2 n _ E1) as [ch2 E2].
    exists (ch1 ++ ch2). now rewrite app_assoc.
  Qed.

  Lemma add_index_children (t t' : ctree) n i : add_index t n i = Ok t' -> forall m, children_of t' m = children_of t m.
  Proof.
    intros A m. destruct (add_index_spec _ _ _ _ A) as [nd [Hn [Hn' [Ho _]]]]. unfold children_of.
    destruct (Nat.eq_dec m n) as [->|Hne]; [rewrite Hn, Hn'; reflexivity|rewrite Ho; auto].
  Qed.

  Lemma add_index_ext (t t' : ctree) n i : add_index t n i = Ok t' -> ext_children t t'.
  Proof. intros A m ch E. exists []. rewrite app_nil_r, (add_index_children _ _ _ _ A). exact E. Qed.

  Lemma add_implied_children fuel : forall t node sat next t' sat' next' oc,
    add_implied conditioned fuel cs t node sat next = Ok (t', sat', next', oc) ->
    forall m, children_of t' m = children_of t m.
  Proof.
    induction fuel as [|f IH]; intros t node sat next t' sat' next' oc A m; cbn in A; [discriminate|].
    destruct (nth_error cs next) as [[c ci]|]; [|inversion A; subst; reflexivity].
    destruct (conditioned c sat) as [c'|]; [inversion A; subst; reflexivity|].
    destruct (add_index t node ci) as [t1| |] eqn:A1; cbn in A; try discriminate.
    rewrite (IH _ _ _ _ _ _ _ _ A m). apply (add_index_children _ _ _ _ A1).
  Qed.

  Lemma same_children_ext t t' : (forall m, children_of t' m = children_of t m) -> ext_children t t'.
  Proof. intros H m ch E. exists []. rewrite app_nil_r, H. exact E. Qed.

  (** ** the root: no satisfied child (yet) *)
  Definition rootfalse (t : ctree) : Prop :=
    forall ch c k, children_of t 0 = Some ch -> In (c, k) ch -> v c = false.

  Definition dgood (t : ctree) (it : qitem (C := C)) : Prop :=
    dreach v t (q_node it) /\ (forall s, In s (q_sat it) -> v s = true) /\ (q_node it = 0 -> rootfalse t).

  Definition dcomplete (t : ctree) (queue : list (qitem (C := C))) : Prop :=
    forall j c i, nth_error cs j = Some (c, i) -> v c = true ->
      (exists n, dreach v t n /\ labelled t i n)
      \/ (exists it, In it queue /\ dgood t it /\ q_next it <= j).

  (** at most one queue item sits at the root *)
  Definition at_root (it : qitem (C := C)) : bool := Nat.eqb (q_node it) 0.
  Definition one_root (queue : list (qitem (C := C))) : Prop := length (filter at_root queue) <= 1.

  Lemma no_root_in q : length (filter at_root q) = 0 -> forall b, In b q -> q_node b <> 0.
  Proof.
    intros Hl b Hb Eb. assert (In b (filter at_root q)) by (apply filter_In; split; [exact Hb|unfold at_root; now rewrite Eb]).
    destruct (filter at_root q); [destruct H|discriminate].
  Qed.

  Lemma dgood_keep t t' it : ext_children t t' -> (q_node it = 0 -> children_of t' 0 = children_of t 0) ->
    dgood t it -> dgood t' it.
  Proof.
    intros Hx Hroot [Hr [Hs Hf]]. split; [eapply dreach_up; eauto|]. split; [exact Hs|].
    intros E0 ch c k Hc. rewrite (Hroot E0) in Hc. now apply (Hf E0 ch c k).
  Qed.

  (** ** one step of get_or_add_child *)
  Lemma child_dstep (t1 t2 : ctree) node c' k :
    wft t1 -> node < length (ct_nodes t1) ->
    get_or_add_child ceqb t1 node c' = Ok (t2, k) ->
    ext_children t1 t2 /\ k <> 0
    /\ (forall m, m <> node -> m < length (ct_nodes t1) -> children_of t2 m = children_of t1 m)
    /\ (node <> 0 -> dreach v t1 node -> v c' = true -> dreach v t2 k)
    /\ (node = 0 -> rootfalse t1 -> v c' = true -> dreach v t2 k)
    /\ (node = 0 -> rootfalse t1 -> v c' = false -> rootfalse t2).
  Proof.
    intros W Hn G.
    destruct (get_or_add_child_spec _ _ _ _ _ _ G) as [nd [Hnd [_ [[Et [c'' [Hin Heq]]]|N]]]].
    - subst t2. destruct W as [W1 _]. destruct (W1 _ _ _ _ Hnd Hin) as [Hk1 _].
      split; [apply ext_refl|]. split; [lia|]. split; [auto|]. split; [|split].
      + intros Hn0 Hr Hv. eapply dr_child; [exact Hn0|exact Hr|exact Hnd|exact Hin|]. rewrite (ceqb_v _ _ Heq). exact Hv.
      + intros -> Hf Hv. exfalso. assert (v c'' = false).
        { apply (Hf (tn_children nd) c'' k); [unfold children_of; now rewrite Hnd|exact Hin]. }
        rewrite (ceqb_v _ _ Heq) in H. congruence.
      + intros _ Hf _. exact Hf.
    - destruct N as [Ek [Hnone [Hlen [Hnode' [Hnew Hoth]]]]].
      assert (Hk0 : k <> 0) by (subst k; lia).
      assert (Hx : ext_children t1 t2).
      { intros m ch E. destruct (children_of_some _ _ _ E) as [ndm [Hm Ec]].
        assert (Hml : m < length (ct_nodes t1)) by (apply nth_error_Some; congruence).
        destruct (Nat.eq_dec m node) as [->|Hne].
        - rewrite Hnd in Hm. inversion Hm; subst ndm. exists [(c', k)]. unfold children_of. rewrite Hnode'. cbn. now rewrite Ec.
        - exists []. rewrite app_nil_r. unfold children_of. rewrite Hoth by lia. rewrite Hm. cbn. now rewrite Ec. }
      split; [exact Hx|]. split; [exact Hk0|]. split; [|split; [|split]].
      + intros m Hm1 Hm2. unfold children_of. rewrite Hoth by lia. reflexivity.
      + intros Hn0 Hr Hv. eapply dr_child; [exact Hn0|eapply dreach_up; eauto|exact Hnode'| |exact Hv].
        cbn. apply in_or_app. right. now left.
      + intros -> Hf Hv. eapply dr_first; [exact Hnode'|reflexivity|exact Hv|].
        intros c0 k0 Hin0. apply (Hf (tn_children nd) c0 k0); [unfold children_of; now rewrite Hnd|exact Hin0].
      + intros -> Hf Hv ch c0 k0 Hc Hin0. unfold children_of in Hc. rewrite Hnode' in Hc. cbn in Hc. inversion Hc; subst ch.
        apply in_app_or in Hin0 as [Hin0|[E|[]]].
        * apply (Hf (tn_children nd) c0 k0); [unfold children_of; now rewrite Hnd|exact Hin0].
        * inversion E; subst. exact Hv.
  Qed.

  (** ** the loop *)
  Theorem powerset_loop_dspec : forall fuel t queue T,
    powerset_loop ceqb conditioned fuel cs t queue = Ok T ->
    wft t -> sound_t v cs t -> Forall (item_ok v cs t) queue -> one_root queue -> dcomplete t queue ->
    dcomplete T [].
  Proof.
    induction fuel as [|f IH]; intros t queue T P W Sd Q Or Cp; cbn [powerset_loop] in P; [discriminate|].
    destruct queue as [|it q].
    - inversion P; subst. exact Cp.
    - inversion Q as [|x l Hit Hq]; subst. destruct Hit as [Hn [Hs Hv]].
      destruct (add_implied conditioned (S (length cs)) cs t (q_node it) (q_sat it) (q_next it))
        as [[[[t1 sat] next] oc]| |] eqn:A; cbn [rbind] in P; try discriminate.
      destruct (add_implied_spec conditioned v cs cond_equiv _ _ _ _ _ _ _ _ _ A W Sd Hn Hs Hv)
        as [W1 [S1 [G1 [Len1 [Inc1 [Tr1 [Le1 [Lab1 Oc1]]]]]]]].
      pose proof (add_implied_children _ _ _ _ _ _ _ _ _ A) as Ch1.
      pose proof (same_children_ext _ _ Ch1) as X1.
      assert (Hq1 : Forall (item_ok v cs t1) q).
      { apply Forall_forall. intros x Hx. eapply item_ok_grows; eauto. rewrite Forall_forall in Hq. auto. }
      assert (Hn1 : q_node it < length (ct_nodes t1)) by lia.
      assert (Hgood : dgood t it -> dreach v t1 (q_node it) /\ (forall s, In s sat -> v s = true)
                                    /\ (q_node it = 0 -> rootfalse t1)).
      { intros [Hr [Hall Hf]]. split; [eapply dreach_up; eauto|]. split.
        - apply Tr1; auto. now apply dreach_treach.
        - intros E0 ch c k Hc. rewrite Ch1 in Hc. now apply (Hf E0 ch c k). }
      (* the other items of the queue sit at other nodes when this one sits at the root *)
      assert (Hoth_root : q_node it = 0 -> forall b, In b q -> q_node b <> 0).
      { intros E0. apply no_root_in. unfold one_root in Or. cbn [filter] in Or. unfold at_root at 1 in Or. rewrite E0 in Or.
        cbn in Or. lia. }
      assert (Or_q : one_root q).
      { unfold one_root in *. cbn [filter] in Or. destruct (at_root it); cbn [length] in Or; lia. }
      destruct oc as [c'|].
      + destruct Oc1 as [c [ci [Hc Cd]]].
        destruct (get_or_add_child ceqb t1 (q_node it) c') as [[t2 k]| |] eqn:G; cbn [rbind fst snd] in P; try discriminate.
        rewrite Hc in P.
        destruct (add_index t2 k ci) as [t3| |] eqn:A3; cbn [rbind] in P; try discriminate.
        destruct (child_step ceqb v cs ceqb_v _ _ _ _ _ W1 S1 Hn1 G) as [W2 [S2 [G2 [Hk RK]]]].
        destruct (child_dstep _ _ _ _ _ W1 Hn1 G) as [X2 [Hk0 [Ch2 [Dn [Dr Df]]]]].
        assert (Hcin : In (c, ci) cs) by (eapply nth_error_In; eauto).
        assert (Hcm : In c (map fst cs)) by (apply in_map_iff; exists (c, ci); auto).
        assert (Hcc : (forall s, In s sat -> v s = true) -> v c' = v c).
        { intros Hsat. pose proof (cond_equiv c sat Hcm Inc1 Hsat) as E. now rewrite Cd in E. }
        assert (Hsat1 : treach v t1 (q_node it) -> forall s, In s sat -> v s = true).
        { intros Hr. pose proof (grows_down v _ _ _ G1 Hn Hr) as Hr0. apply Tr1; auto. }
        assert (Hchild : treach v t2 k -> (forall s, In s sat -> v s = true) /\ v c = true).
        { intros Hr. apply RK in Hr as [Hr Hv']. pose proof (Hsat1 Hr) as Hsat. split; auto.
          rewrite <- (Hcc Hsat). exact Hv'. }
        destruct (add_index_grows v _ _ _ _ A3) as [G3 [Lb3 [Len3 _]]].
        pose proof (add_index_wft _ _ _ _ A3 W2) as W3.
        assert (S3 : sound_t v cs t3).
        { eapply sound_add_index; eauto. intros Hr. now apply Hchild. }
        assert (R3 : forall m, treach v t3 m <-> treach v t2 m) by (intros m0; exact (add_index_treach v _ _ _ _ m0 A3)).
        pose proof (add_index_children _ _ _ _ A3) as Ch3.
        pose proof (add_index_ext _ _ _ _ A3) as X3.
        assert (G13 : grows v t1 t3) by (eapply grows_trans; eauto).
        assert (G03 : grows v t t3) by (eapply grows_trans; eauto).
        assert (X13 : ext_children t1 t3) by (eapply ext_trans; eauto).
        assert (X03 : ext_children t t3) by (eapply ext_trans; eauto).
        set (skip := {| q_next := S next; q_sat := sat; q_node := q_node it |}).
        set (take := {| q_next := S next; q_sat := sat ++ [c]; q_node := k |}).
        assert (Hskip : item_ok v cs t3 skip).
        { split; [cbn; pose proof (grows_len v _ _ G13); lia|]. split; [exact Inc1|]. cbn. intros Hr.
          apply Hsat1. eapply grows_down; eauto. }
        assert (Htake : item_ok v cs t3 take).
        { split; [cbn; lia|]. split.
          - cbn. intros x Hx. apply in_app_or in Hx as [Hx|[<-|[]]]; auto.
          - cbn. intros Hr s Hs'. apply R3 in Hr. destruct (Hchild Hr) as [H1 H2].
            apply in_app_or in Hs' as [Hs'|[<-|[]]]; auto. }
        (* root children of t3 versus t, for the items that stay in the queue *)
        assert (Hroot_keep : forall b, In b q -> q_node b = 0 -> children_of t3 0 = children_of t 0).
        { intros b Hb Eb. assert (Hne : q_node it <> 0).
          { intros E0. exact (Hoth_root E0 b Hb Eb). }
          rewrite Ch3, Ch2, Ch1; auto. destruct W1 as [_ [_ W13]]. exact W13. }
        apply (IH _ _ _ P W3 S3).
        * apply Forall_app. split.
          -- apply Forall_forall. intros x Hx. eapply item_ok_grows; [exact G13|]. rewrite Forall_forall in Hq1. auto.
          -- constructor; [exact Hskip|]. constructor; [exact Htake|constructor].
        * (* at most one item at the root *)
          change (one_root (q ++ [skip; take])).
          unfold one_root. rewrite filter_app, app_length.
          assert (Es : at_root skip = Nat.eqb (q_node it) 0) by reflexivity.
          assert (Et : at_root take = Nat.eqb k 0) by reflexivity.
          cbn [filter]. rewrite Es, Et.
          destruct (Nat.eqb k 0) eqn:Ek; [apply Nat.eqb_eq in Ek; contradiction|].
          destruct (Nat.eqb (q_node it) 0) eqn:E0.
          -- apply Nat.eqb_eq in E0. assert (length (filter at_root q) = 0).
             { destruct (filter at_root q) as [|b r] eqn:Ef; [reflexivity|exfalso].
               assert (Hb : In b (filter at_root q)) by (rewrite Ef; now left). apply filter_In in Hb as [Hb Hb0].
               unfold at_root in Hb0. apply Nat.eqb_eq in Hb0. exact (Hoth_root E0 b Hb Hb0). }
             cbn [length]. lia.
          -- unfold one_root in Or_q. cbn [length]. lia.
        * (* the completeness invariant *)
          change (dcomplete t3 (q ++ [skip; take])).
          intros j c0 i0 Hj Hv0. destruct (Cp j c0 i0 Hj Hv0) as [[n [Hr Hl]]|[it0 [Hin0 [Hg0 Hle0]]]].
          -- left. exists n. split; [eapply dreach_up; [exact X03|exact Hr]|eapply grows_lab; [exact G03|exact Hl]].
          -- destruct Hin0 as [<-|Hin0].
             ++ destruct (Hgood Hg0) as [Hr1 [Hsat Hrf]].
                assert (Hkreach : v c' = true -> dreach v t3 k).
                { intros Hvc'. eapply dreach_up; [exact X3|].
                  destruct (Nat.eq_dec (q_node it) 0) as [E0|Hn0]; [apply Dr; auto|apply Dn; auto]. }
                destruct (Nat.lt_ge_cases j next) as [Hlt|Hge].
                ** left. exists (q_node it). split; [eapply dreach_up; [exact X13|exact Hr1]|].
                   eapply grows_lab; [exact G13|]. eapply Lab1; eauto.
                ** destruct (Nat.eq_dec j next) as [->|Hne].
                   --- rewrite Hc in Hj. inversion Hj; subst c0 i0.
                       left. exists k. split; [|exact Lb3]. apply Hkreach. rewrite (Hcc Hsat). exact Hv0.
                   --- destruct (v c) eqn:Vc.
                       +++ right. exists take. split; [apply in_or_app; right; right; now left|]. split; [|cbn; lia].
                           split; [cbn; apply Hkreach; rewrite (Hcc Hsat); reflexivity|]. split.
                           *** cbn. intros s0 Hs0. apply in_app_or in Hs0 as [Hs0|[<-|[]]]; auto.
                           *** cbn. intros Ek. contradiction.
                       +++ right. exists skip. split; [apply in_or_app; right; now left|]. split; [|cbn; lia].
                           split; [cbn; eapply dreach_up; [exact X13|exact Hr1]|]. split; [exact Hsat|].
                           cbn. intros E0 ch cx kx Hch Hinx. rewrite Ch3 in Hch.
                           apply (Df E0 (Hrf E0) ltac:(rewrite (Hcc Hsat); reflexivity) ch cx kx Hch Hinx).
             ++ right. exists it0. split; [apply in_or_app; now left|]. split; [|exact Hle0].
                apply (dgood_keep t t3 it0 X03); [|exact Hg0]. intros E0. exact (Hroot_keep it0 Hin0 E0).
      + (* all remaining constraints were implied *)
        apply (IH _ _ _ P W1 S1 Hq1 Or_q).
        intros j c0 i0 Hj Hv0. destruct (Cp j c0 i0 Hj Hv0) as [[n [Hr Hl]]|[it0 [Hin0 [Hg0 Hle0]]]].
        * left. exists n. split; [eapply dreach_up; [exact X1|exact Hr]|eapply grows_lab; [exact G1|exact Hl]].
        * destruct Hin0 as [<-|Hin0].
          -- destruct (Hgood Hg0) as [Hr1 _]. left. exists (q_node it). split; [exact Hr1|].
             eapply Lab1; eauto. split; [exact Hle0|].
             assert (j < length cs) by (apply nth_error_Some; congruence). lia.
          -- right. exists it0. split; [exact Hin0|]. split; [|exact Hle0].
             apply (dgood_keep t t1 it0 X1); [intros _; apply Ch1|exact Hg0].
  Qed.
End PowersetDet.

Section WithPowersetDet.
  Context {C : Type} (ceqb : C -> C -> bool) (conditioned : C -> list C -> option C) (v : C -> bool).
  Variable cs : list (C * nat).
  Variable orig : list C.
  Hypothesis cs_indexed : forall c i, In (c, i) cs -> nth_error orig i = Some c.
  Hypothesis ceqb_v : forall a b, ceqb a b = true -> v a = v b.
  Hypothesis cond_equiv : forall c sat,
    In c (map fst cs) -> incl sat (map fst cs) -> (forall s, In s sat -> v s = true) ->
    match conditioned c sat with None => v c = true | Some c' => v c' = v c end.

  (** the powerset tree is faithful under the deterministic reading of its root *)
  Theorem with_powerset_det_faithful fuel T :
    with_powerset ceqb conditioned fuel cs = Ok T -> det_faithful v T orig.
  Proof.
    intros P.
    destruct (with_powerset_ok ceqb conditioned v cs orig cs_indexed ceqb_v cond_equiv fuel T P) as [F _].
    intros i Hi. split.
    - intros [n [Hr Hl]]. apply (F i Hi). exists n. split; [now apply dreach_treach|exact Hl].
    - intros [c [Hc Hv]]. unfold with_powerset in P. destruct cs as [|e cs'] eqn:Ecs.
      + inversion P; subst T. destruct Hi as [n [nd [Hn Hl]]].
        destruct n as [|[|n]]; cbn in Hn; try discriminate. inversion Hn; subst. destruct Hl.
      + rewrite <- Ecs in *.
        set (t0 := set_make_det (ctree_new (C := C)) true) in P.
        set (it0 := {| q_next := 0; q_sat := @nil C; q_node := 0 |}) in P.
        assert (W0 : wft t0).
        { split; [|split; [|cbn; lia]].
          - intros n nd c0 k Hn Hin. destruct n as [|[|n]]; cbn in Hn; try discriminate. inversion Hn; subst. destruct Hin.
          - intros n1 nd1 c1 n2 nd2 c2 k H1 I1. destruct n1 as [|[|n1]]; cbn in H1; try discriminate.
            inversion H1; subst. destruct I1. }
        assert (S0 : sound_t v cs t0).
        { intros n i0 [nd [Hn Hl]]. destruct n as [|[|n]]; cbn in Hn; try discriminate. inversion Hn; subst. destruct Hl. }
        assert (Q0 : Forall (item_ok v cs t0) [it0]).
        { constructor; [|constructor]. split; [cbn; lia|]. split; [intros x []|]. intros _ s []. }
        assert (C0 : complete_t v cs t0 [it0]).
        { intros j c0 i0 Hj Hv0. right. exists it0. split; [now left|]. split; [|cbn; lia].
          split; [constructor|intros s []]. }
        destruct (powerset_loop_spec ceqb conditioned v cs ceqb_v cond_equiv _ _ _ _ P W0 S0 Q0 C0) as [_ [ST _]].
        assert (D0 : dcomplete v cs t0 [it0]).
        { intros j c0 i0 Hj Hv0. right. exists it0. split; [now left|]. split; [|cbn; lia].
          split; [constructor|]. split; [intros s []|].
          intros _ ch c1 k Hch Hin. cbn in Hch. inversion Hch; subst ch. destruct Hin. }
        assert (O0 : one_root [it0]) by (unfold one_root; cbn; lia).
        pose proof (powerset_loop_dspec ceqb conditioned v cs ceqb_v cond_equiv _ _ _ _ P W0 S0 Q0 O0 D0) as DT.
        destruct Hi as [n Hl]. destruct (ST _ _ Hl) as [c1 [Hc1 _]].
        pose proof (cs_indexed _ _ Hc1) as Ho. rewrite Ho in Hc. inversion Hc; subst c1.
        destruct (In_nth_error _ _ Hc1) as [j Hj].
        destruct (DT j c i Hj Hv) as [H|[it [[] _]]]. exact H.
  Qed.
End WithPowersetDet.
