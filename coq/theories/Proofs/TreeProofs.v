(** C10: observational lemmas about the tree operations, and faithfulness of the
    depth-one constructors (with_children and what is built on it). *)
From PM Require Import Model.Prelude Model.CTree Spec.TreeSem.

Section Ops.
  Context {C : Type} (ceqb : C -> C -> bool).
  Notation tnode := (tnode C).
  Notation ctree := (ctree C).

  Lemma update_nth_length {A} (l : list A) n f : length (update_nth l n f) = length l.
  Proof. revert n. induction l as [|x l IH]; intros [|n]; cbn; auto. Qed.

  Lemma nth_update_same {A} (l : list A) n f x :
    nth_error l n = Some x -> nth_error (update_nth l n f) n = Some (f x).
  Proof.
    revert n. induction l as [|y l IH]; intros [|n] Hn; cbn in *; try discriminate.
    - inversion Hn; subst. reflexivity.
    - auto.
  Qed.

  Lemma nth_update_other {A} (l : list A) n m f :
    m <> n -> nth_error (update_nth l n f) m = nth_error l m.
  Proof.
    revert n m. induction l as [|y l IH]; intros [|n] [|m] Hne; cbn; auto; try lia.
  Qed.

  (** add_constraint_index *)
  Lemma add_index_spec (t t' : ctree) n i :
    add_index t n i = Ok t' ->
    exists nd, nth_error (ct_nodes t) n = Some nd
      /\ nth_error (ct_nodes t') n = Some {| tn_labels := tn_labels nd ++ [i]; tn_children := tn_children nd |}
      /\ (forall m, m <> n -> nth_error (ct_nodes t') m = nth_error (ct_nodes t) m)
      /\ length (ct_nodes t') = length (ct_nodes t)
      /\ ct_make_det t' = ct_make_det t.
  Proof.
    unfold add_index. destruct (nth_error (ct_nodes t) n) as [nd|] eqn:Hn; [|discriminate].
    intros X. inversion X; subst. cbn. exists nd. split; auto. split.
    - rewrite (nth_update_same _ _ _ _ Hn). reflexivity.
    - split; [intros m Hm; now apply nth_update_other|]. split; auto. apply update_nth_length.
  Qed.

  Lemma find_child_some cs c k : find_child ceqb cs c = Some k ->
    exists c', In (c', k) cs /\ ceqb c' c = true.
  Proof.
    induction cs as [|[c' j] cs IH]; cbn; [discriminate|].
    destruct (ceqb c' c) eqn:Eq.
    - intros X. inversion X; subst. exists c'. auto.
    - intros X. destruct (IH X) as [c'' [H1 H2]]. exists c''. auto.
  Qed.

  Lemma find_child_none cs c : find_child ceqb cs c = None ->
    forall c' k, In (c', k) cs -> ceqb c' c = false.
  Proof.
    induction cs as [|[c0 j] cs IH]; cbn; [intros _ c' k []|].
    destruct (ceqb c0 c) eqn:Eq; [discriminate|].
    intros X c' k [Hin|Hin]; [inversion Hin; subst; auto|eauto].
  Qed.

  (** get_or_add_child: either an existing child with an equal constraint, or a
      fresh leaf appended at index [length nodes] *)
  Lemma get_or_add_child_spec (t t' : ctree) n c k :
    get_or_add_child ceqb t n c = Ok (t', k) ->
    exists nd, nth_error (ct_nodes t) n = Some nd /\ ct_make_det t' = ct_make_det t /\
      ((t' = t /\ exists c', In (c', k) (tn_children nd) /\ ceqb c' c = true)
       \/ (k = length (ct_nodes t)
           /\ (forall c' j, In (c', j) (tn_children nd) -> ceqb c' c = false)
           /\ length (ct_nodes t') = S (length (ct_nodes t))
           /\ nth_error (ct_nodes t') n
              = Some {| tn_labels := tn_labels nd; tn_children := tn_children nd ++ [(c, k)] |}
           /\ nth_error (ct_nodes t') k = Some tnode_new
           /\ (forall m, m <> n -> m <> k -> nth_error (ct_nodes t') m = nth_error (ct_nodes t) m))).
  Proof.
    unfold get_or_add_child. destruct (nth_error (ct_nodes t) n) as [nd|] eqn:Hn; [|discriminate].
    destruct (find_child ceqb (tn_children nd) c) as [j|] eqn:F.
    - intros X. inversion X; subst. exists nd. split; auto. split; auto. left. split; auto.
      now apply find_child_some.
    - intros X. inversion X; subst. clear X. exists nd. split; auto. split; auto. right. cbn.
      assert (Hlt : n < length (ct_nodes t)) by (apply nth_error_Some; congruence).
      split; auto. split; [now apply find_child_none|]. split.
      + rewrite app_length, update_nth_length. cbn. lia.
      + split.
        * rewrite nth_error_app1 by (rewrite update_nth_length; exact Hlt).
          rewrite (nth_update_same _ _ _ _ Hn). reflexivity.
        * split.
          -- rewrite nth_error_app2 by (rewrite update_nth_length; lia).
             rewrite update_nth_length, Nat.sub_diag. reflexivity.
          -- intros m Hm1 Hm2.
             destruct (Nat.lt_ge_cases m (length (ct_nodes t))) as [Hl|Hl].
             ++ rewrite nth_error_app1 by (rewrite update_nth_length; exact Hl).
                now apply nth_update_other.
             ++ rewrite (proj2 (nth_error_None _ _)) by (rewrite app_length, update_nth_length; cbn; lia).
                symmetry. apply nth_error_None. exact Hl.
  Qed.

  Lemma add_indices_spec is : forall (t t' : ctree) n nd,
    nth_error (ct_nodes t) n = Some nd ->
    add_indices t n is = Ok t' ->
    nth_error (ct_nodes t') n = Some {| tn_labels := tn_labels nd ++ is; tn_children := tn_children nd |}
    /\ (forall m, m <> n -> nth_error (ct_nodes t') m = nth_error (ct_nodes t) m)
    /\ length (ct_nodes t') = length (ct_nodes t)
    /\ ct_make_det t' = ct_make_det t.
  Proof.
    induction is as [|i is IH]; intros t t' n nd Hn A; cbn in A.
    - inversion A; subst. rewrite app_nil_r. destruct nd; auto.
    - destruct (add_index t n i) as [t1| |] eqn:A1; cbn in A; try discriminate.
      destruct (add_index_spec _ _ _ _ A1) as [nd' [Hn' [Hn1 [Ho [Hl Hd]]]]].
      rewrite Hn in Hn'. inversion Hn'; subst nd'.
      destruct (IH _ _ _ _ Hn1 A) as [H1 [H2 [H3 H4]]]. cbn in H1.
      rewrite <- app_assoc in H1. cbn in H1. split; [exact H1|]. split.
      + intros m Hm. rewrite H2, Ho; auto.
      + split; congruence.
  Qed.

  Lemma add_indices_total is : forall (t : ctree) n nd,
    nth_error (ct_nodes t) n = Some nd -> exists t', add_indices t n is = Ok t'.
  Proof.
    induction is as [|i is IH]; intros t n nd Hn; cbn; [eauto|].
    unfold add_index at 1. rewrite Hn. cbn.
    eapply IH. cbn. apply nth_update_same. exact Hn.
  Qed.
End Ops.

Lemma NoDup_app_one {A} (l : list A) x : NoDup l -> ~ In x l -> NoDup (l ++ [x]).
Proof.
  induction l as [|y l IH]; intros Hnd Hx; cbn.
  - constructor; [intros []|constructor].
  - inversion Hnd; subst. constructor.
    + intros C. apply in_app_or in C as [C|[C|[]]]; [contradiction|]. subst. apply Hx. now left.
    + apply IH; auto. intros C. apply Hx. now right.
Qed.

Section Depth1.
  Context {C : Type} (ceqb : C -> C -> bool) (v : C -> bool) (cs : list C).
  Hypothesis ceqb_v : forall a b, ceqb a b = true -> v a = v b.
  Notation tnode := (tnode C).
  Notation ctree := (ctree C).

  (** label i stands for a constraint with the same truth value as c *)
  Definition same_truth (c : C) (i : nat) : Prop := exists c0, nth_error cs i = Some c0 /\ v c0 = v c.

  Definition is_leaf (nd : tnode) : Prop := tn_children nd = [].

  Definition d1_inv (t : ctree) : Prop :=
    exists root, nth_error (ct_nodes t) 0 = Some root /\ tn_labels root = []
      /\ NoDup (map snd (tn_children root))
      /\ (forall c k, In (c, k) (tn_children root) ->
            0 < k /\ exists nd, nth_error (ct_nodes t) k = Some nd /\ is_leaf nd
                              /\ forall i, In i (tn_labels nd) -> same_truth c i)
      /\ (forall k nd, 0 < k -> nth_error (ct_nodes t) k = Some nd ->
            exists c, In (c, k) (tn_children root)).

  Lemma d1_init : d1_inv (ctree_new (C := C)).
  Proof.
    exists tnode_new. cbn. split; [reflexivity|]. split; [reflexivity|]. split; [constructor|]. split.
    - intros c k [].
    - intros k nd Hk Hn. destruct k; [lia|]. destruct k; discriminate.
  Qed.

  Lemma d1_step (t t1 t2 : ctree) c is k :
    d1_inv t -> (forall i, In i is -> same_truth c i) ->
    get_or_add_child ceqb t 0 c = Ok (t1, k) -> add_indices t1 k is = Ok t2 ->
    d1_inv t2 /\ (forall i, in_tree t i -> in_tree t2 i) /\ (forall i, In i is -> in_tree t2 i).
  Proof.
    intros [root [Hr [Hl [Hnd [Hch Hall]]]]] His G A.
    destruct (get_or_add_child_spec _ _ _ _ _ _ G) as [nd0 [Hn0 [Hd [[Et [c' [Hin Heq]]]|N]]]].
    - (* existing child *)
      subst t1. rewrite Hr in Hn0. inversion Hn0; subst nd0.
      destruct (Hch _ _ Hin) as [Hk [nd [Hnk [Hlf Hlab]]]].
      destruct (add_indices_spec _ _ _ _ _ Hnk A) as [H1 [H2 [H3 H4]]].
      split; [|split].
      + exists root. split; [rewrite H2; auto; lia|]. split; auto. split; auto. split.
        * intros c0 k0 Hin0. destruct (Hch _ _ Hin0) as [Hk0 [nd' [Hn' [Hlf' Hlab']]]]. split; auto.
          destruct (Nat.eq_dec k0 k) as [->|Hne].
          -- eexists. split; [exact H1|]. split; [exact Hlf|]. cbn. intros i Hi.
             assert (c0 = c').
             { clear - Hnd Hin Hin0. induction (tn_children root) as [|[a b] l IHl]; [destruct Hin|].
               cbn in Hnd. inversion Hnd; subst. destruct Hin as [E1|Hin], Hin0 as [E2|Hin0].
               - congruence.
               - inversion E1; subst. exfalso. apply H1. apply in_map_iff. exists (c0, k). auto.
               - inversion E2; subst. exfalso. apply H1. apply in_map_iff. exists (c', k). auto.
               - auto. }
             subst c0. apply in_app_or in Hi as [Hi|Hi]; auto.
             destruct (His i Hi) as [c1 [Hc1 Hv]]. exists c1. split; auto.
             rewrite Hv. symmetry. now apply ceqb_v.
          -- exists nd'. split; [rewrite H2; auto|]. auto.
        * intros k0 nd' Hk0 Hn'. destruct (Nat.eq_dec k0 k) as [->|Hne]; [eauto|].
          rewrite H2 in Hn' by auto. eauto.
      + intros i [n [ndi [Hni Hi]]]. destruct (Nat.eq_dec n k) as [->|Hne].
        * exists k. eexists. split; [exact H1|]. cbn. rewrite Hnk in Hni. inversion Hni; subst.
          apply in_or_app. now left.
        * exists n, ndi. rewrite H2; auto.
      + intros i Hi. exists k. eexists. split; [exact H1|]. cbn. apply in_or_app. now right.
    - (* fresh child *)
      destruct N as [Ek [Hnone [Hlen [Hroot' [Hnew Hoth]]]]].
      rewrite Hr in Hn0. inversion Hn0; subst nd0.
      assert (Hk0 : 0 < k).
      { subst k. assert (0 < length (ct_nodes t)) by (apply nth_error_Some; congruence). lia. }
      destruct (add_indices_spec _ _ _ _ _ Hnew A) as [H1 [H2 [H3 H4]]]. cbn in H1.
      assert (Hfresh : forall c0, ~ In (c0, k) (tn_children root)).
      { intros c0 Hin0. destruct (Hch _ _ Hin0) as [_ [nd' [Hn' _]]].
        assert (k < length (ct_nodes t)) by (apply nth_error_Some; congruence). lia. }
      split; [|split].
      + exists {| tn_labels := tn_labels root; tn_children := tn_children root ++ [(c, k)] |}.
        split; [rewrite H2 by lia; exact Hroot'|]. cbn. split; auto. split.
        * rewrite map_app. cbn. apply NoDup_app_one; auto.
          intros Hin0. apply in_map_iff in Hin0 as [[c0 k'] [Ek' Hin0]]. cbn in Ek'. subst k'.
          exact (Hfresh c0 Hin0).
        * split.
          -- intros c0 k0 Hin0. apply in_app_or in Hin0 as [Hin0|[E|[]]].
             ++ destruct (Hch _ _ Hin0) as [Hk0' [nd' [Hn' [Hlf' Hlab']]]]. split; auto.
                assert (k0 <> k) by (intros ->; exact (Hfresh c0 Hin0)).
                exists nd'. split; [rewrite H2 by auto; rewrite Hoth by (auto; lia); exact Hn'|auto].
             ++ inversion E; subst c0 k0. split; auto. eexists. split; [exact H1|]. split; [reflexivity|].
                cbn. intros i Hi. apply His. exact Hi.
          -- intros k0 nd' Hk0' Hn'. destruct (Nat.eq_dec k0 k) as [->|Hne].
             ++ exists c. apply in_or_app. right. now left.
             ++ rewrite H2 in Hn' by auto. rewrite Hoth in Hn' by (auto; lia).
                destruct (Hall _ _ Hk0' Hn') as [c0 Hc0]. exists c0. apply in_or_app. now left.
      + intros i [n [ndi [Hni Hi]]].
        assert (n <> k) by (intros ->; assert (k < length (ct_nodes t)) by (apply nth_error_Some; congruence); lia).
        destruct (Nat.eq_dec n 0) as [->|Hn0'].
        * rewrite Hr in Hni. inversion Hni; subst. rewrite Hl in Hi. destruct Hi.
        * exists n, ndi. rewrite H2 by auto. rewrite Hoth by auto. auto.
      + intros i Hi. exists k. eexists. split; [exact H1|]. cbn. exact Hi.
  Qed.

  Lemma d1_faithful t : d1_inv t -> faithful v t cs.
  Proof.
    intros [root [Hr [Hl [Hnd [Hch Hall]]]]] i [n [ndi [Hni Hi]]].
    assert (Hn0 : 0 < n).
    { destruct n; [|lia]. rewrite Hr in Hni. inversion Hni; subst. rewrite Hl in Hi. destruct Hi. }
    destruct (Hall _ _ Hn0 Hni) as [c Hc]. destruct (Hch _ _ Hc) as [_ [nd [Hn' [Hlf Hlab]]]].
    rewrite Hni in Hn'. inversion Hn'; subst nd.
    destruct (Hlab _ Hi) as [c0 [Hc0 Hv]]. split.
    - intros [m [Hreach [ndm [Hnm Him]]]]. exists c0. split; auto. rewrite Hv.
      (* m is a child of the root along an edge with the truth value of cs_i *)
      assert (Hm0 : 0 < m).
      { destruct m; [|lia]. rewrite Hr in Hnm. inversion Hnm; subst. rewrite Hl in Him. destruct Him. }
      destruct (Hall _ _ Hm0 Hnm) as [cm Hcm]. destruct (Hch _ _ Hcm) as [_ [nd' [Hn'' [_ Hlab']]]].
      rewrite Hnm in Hn''. inversion Hn''; subst nd'. destruct (Hlab' _ Him) as [c1 [Hc1 Hv1]].
      rewrite Hc0 in Hc1. inversion Hc1; subst c1. rewrite <- Hv, Hv1.
      inversion Hreach as [|n0 nd0 c' m' Hr0 Hn0' Hin0 Hv0]; subst; [lia|].
      (* the parent is the root: every other node is a leaf *)
      assert (n0 = 0).
      { destruct n0; auto. destruct (Hall (S n0) nd0 ltac:(lia) Hn0') as [cx Hcx].
        destruct (Hch _ _ Hcx) as [_ [ndx [Hnx [Hlfx _]]]]. rewrite Hn0' in Hnx. inversion Hnx; subst.
        unfold is_leaf in Hlfx. rewrite Hlfx in Hin0. destruct Hin0. }
      subst n0. rewrite Hr in Hn0'. inversion Hn0'; subst nd0.
      assert (c' = cm).
      { clear - Hnd Hin0 Hcm. induction (tn_children root) as [|[a b] l IHl]; [destruct Hin0|].
        cbn in Hnd. inversion Hnd; subst. destruct Hin0 as [E1|Hin0], Hcm as [E2|Hcm].
        - congruence.
        - inversion E1; subst. exfalso. apply H1. apply in_map_iff. exists (cm, m). auto.
        - inversion E2; subst. exfalso. apply H1. apply in_map_iff. exists (c', m). auto.
        - auto. }
      subst. exact Hv0.
    - intros [c1 [Hc1 Hv1]]. rewrite Hc0 in Hc1. inversion Hc1; subst c1.
      exists n. split; [|exists ndi; auto].
      eapply tr_child; [apply tr_root|exact Hr|exact Hc|]. rewrite <- Hv. exact Hv1.
  Qed.

  Lemma with_children_from_inv children : forall t t',
    d1_inv t ->
    (forall c is, In (c, is) children -> forall i, In i is -> same_truth c i) ->
    with_children_from ceqb t children = Ok t' ->
    d1_inv t' /\ (forall i, in_tree t i -> in_tree t' i)
    /\ (forall c is i, In (c, is) children -> In i is -> in_tree t' i).
  Proof.
    induction children as [|[c is] rest IH]; intros t t' I H W; cbn in W.
    - inversion W; subst. split; auto. split; auto. intros c is i [].
    - destruct (get_or_add_child ceqb t 0 c) as [[t1 k]| |] eqn:G; cbn in W; try discriminate.
      destruct (add_indices t1 k is) as [t2| |] eqn:A; cbn in W; try discriminate.
      destruct (d1_step _ _ _ _ _ _ I (H c is (or_introl eq_refl)) G A) as [I2 [M2 L2]].
      destruct (IH _ _ I2 (fun c0 is0 Hin => H c0 is0 (or_intror Hin)) W) as [I3 [M3 L3]].
      split; auto. split; [auto|].
      intros c0 is0 i [E|Hin] Hi; [inversion E; subst; auto|eauto].
  Qed.

  Lemma d1_valid t : d1_inv t -> valid_indices t (length cs).
  Proof.
    intros [root [Hr [Hl [Hnd [Hch Hall]]]]] i [n [ndi [Hni Hi]]].
    assert (Hn0 : 0 < n).
    { destruct n; [|lia]. rewrite Hr in Hni. inversion Hni; subst. rewrite Hl in Hi. destruct Hi. }
    destruct (Hall _ _ Hn0 Hni) as [c Hc]. destruct (Hch _ _ Hc) as [_ [nd [Hn' [_ Hlab]]]].
    rewrite Hni in Hn'. inversion Hn'; subst nd. destruct (Hlab _ Hi) as [c0 [Hc0 _]].
    apply nth_error_Some. congruence.
  Qed.

  (** with_children: faithful, only valid indices, every given index present *)
  Theorem with_children_ok children T :
    (forall c is, In (c, is) children -> forall i, In i is -> same_truth c i) ->
    with_children ceqb children = Ok T ->
    faithful v T cs /\ valid_indices T (length cs)
    /\ forall c is i, In (c, is) children -> In i is -> in_tree T i.
  Proof.
    intros H W. destruct (with_children_from_inv _ _ _ d1_init H W) as [I [_ L]].
    split; [now apply d1_faithful|]. split; [now apply d1_valid|exact L].
  Qed.
End Depth1.

(** the make_det flag plays no role in reachability *)
Lemma faithful_set_make_det {C} (v : C -> bool) (T : ctree C) b cs :
  faithful v T cs -> faithful v (set_make_det T b) cs.
Proof.
  assert (R : forall n, treach v (set_make_det T b) n <-> treach v T n).
  { intros n. split; induction 1; try constructor; eapply tr_child; eauto. }
  intros F i Hin. specialize (F i Hin). unfold labelled in *. cbn in *.
  split.
  - intros [n [Hr Hl]]. apply F. exists n. split; auto. now apply R.
  - intros Hc. destruct (proj2 F Hc) as [n [Hr Hl]]. exists n. split; auto. now apply R.
Qed.
