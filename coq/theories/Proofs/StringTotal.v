(** Strings: the traversal on a well-formed automaton never panics and
    terminates (C08, matching half): for every host there is a fuel bound beyond
    which [run] returns [Ok]. *)
From PM Require Import Model.Prelude Model.Domain Model.Constraint Model.BindAll Model.Automaton Model.Traversal
  Model.BindMaps Model.DomString Cert.CharCert Cert.WfCheck
  Proofs.BindAllProofs Proofs.BindMapProofs Proofs.BindMapHistories Proofs.WfSound Proofs.StringRun Proofs.StringUnique.
Local Open Scope N_scope.
Arguments N.max : simpl never.
Arguments N.add : simpl never.
Arguments N.ltb : simpl never.
Arguments N.eqb : simpl never.

(** ** the components never panic *)
Lemma rmapM_total {X Y} (f : X -> res Y) l :
  (forall x, In x l -> exists y, f x = Ok y) -> exists r, rmapM f l = Ok r /\ length r = length l.
Proof.
  induction l as [|x l IH]; intros H; [exists []; auto|].
  destruct (H x (or_introl eq_refl)) as [y Ey]. destruct IH as [r [Er Hl]]; [intros z Hz; apply H; now right|].
  exists (y :: r). cbn. rewrite Ey. cbn. rewrite Er. cbn. split; auto.
Qed.

Lemma rflatM_total {X Y} (f : X -> res (list Y)) l n :
  (forall x, In x l -> exists ys, f x = Ok ys /\ (length ys <= n)%nat) ->
  exists r, rflatM f l = Ok r /\ (length r <= length l * n)%nat.
Proof.
  induction l as [|x l IH]; intros H; [exists []; cbn; auto|].
  destruct (H x (or_introl eq_refl)) as [ys [Ey Hy]]. destruct IH as [r [Er Hl]]; [intros z Hz; apply H; now right|].
  exists (ys ++ r). cbn [rflatM]. rewrite Ey. cbn [rbind]. rewrite Er. cbn [rbind]. split; auto.
  rewrite app_length. cbn [length]. lia.
Qed.

Lemma rflatM_total' {X Y} (f : X -> res (list Y)) l :
  (forall x, In x l -> exists ys, f x = Ok ys) -> exists r, rflatM f l = Ok r.
Proof.
  induction l as [|x l IH]; intros H; [exists []; reflexivity|].
  destruct (H x (or_introl eq_refl)) as [ys Ey]. destruct IH as [r Er]; [intros z Hz; apply H; now right|].
  exists (ys ++ r). cbn [rflatM]. rewrite Ey. cbn [rbind]. rewrite Er. reflexivity.
Qed.

Lemma s_bind_all_total h m ks inc : exists l, bind_all string_dom h m ks inc = Ok l.
Proof.
  destruct (extend_total string_dom h inc ks (fun k m0 => ex_intro _ (s_opts h k m0) eq_refl) m) as [r Hr].
  exists r. now apply bind_all_eq_spec.
Qed.

Lemma s_retain_total_ord order m : prereq_ordered string_dom order -> exists m', mretain string_dom order m = Ok m'.
Proof.
  intros Ho. destruct order as [|k ks] eqn:E.
  - exists SUnbound. reflexivity.
  - apply s_retain_total. split; [apply Ho|]. rewrite (s_prereq_head _ k ks Ho eq_refl). now left.
Qed.

(** the number of candidates bind_all produces *)
Definition isb (m : spm) : Prop := exists s l, m = SBound s l.

Lemma s_bind_key_isb h inc k s l :
  exists r, bind_key string_dom h inc k (SBound s l) = Ok r /\ Forall isb r /\ (length r <= 1)%nat.
Proof.
  unfold bind_key. change (mget string_dom (SBound s l) k) with (sget (SBound s l) k). cbn [sget].
  destruct (N.ltb_spec k l).
  - eexists. split; [reflexivity|]. split; [constructor; [exists s, l; auto|constructor]|cbn; lia].
  - cbn [opts string_dom rbind]. unfold s_opts. destruct (N.eqb_spec k 0) as [->|Hk].
    + destruct (nseq (blen h)) as [|v vs] eqn:En.
      * destruct inc; eexists; (split; [reflexivity|]); (split; [|cbn; lia]); constructor; [exists s, l; auto|constructor].
      * rewrite <- En. exists []. split; [|split; [constructor|cbn; lia]].
        assert (flat_map (fun v0 => match mbind string_dom (SBound s l) 0 v0 with Some m' => [m'] | None => [] end) (nseq (blen h)) = []) as ->; [|reflexivity].
        clear. induction (nseq (blen h)) as [|x xs IH]; cbn [flat_map]; auto.
    + destruct (N.ltb_spec (s + k) (blen h)).
      * cbn [flat_map]. change (mbind string_dom (SBound s l) k (s + k)) with (sbind (SBound s l) k (s + k)).
        unfold sbind. destruct (N.eqb_spec k 0); [contradiction|]. cbn [app].
        eexists. split; [reflexivity|]. split; [constructor; [eexists _, _; reflexivity|constructor]|cbn; lia].
      * destruct inc; eexists; (split; [reflexivity|]); (split; [|cbn; lia]); constructor; [exists s, l; auto|constructor].
Qed.

Lemma s_bind_list_isb h inc : forall ks ms, Forall isb ms ->
  exists l, bind_all_list string_dom h inc ks ms = Ok l /\ Forall isb l /\ (length l <= length ms)%nat.
Proof.
  induction ks as [|k ks IH]; intros ms HF; [exists ms; cbn; auto|].
  assert (Hk : exists ms', rflatM (bind_key string_dom h inc k) ms = Ok ms' /\ Forall isb ms' /\ (length ms' <= length ms)%nat).
  { clear IH. induction ms as [|m ms IHm]; [exists []; cbn; auto|].
    inversion HF as [|? ? Hm Hms]; subst. destruct Hm as [s [l ->]].
    destruct (s_bind_key_isb h inc k s l) as [r [Er [Fr Lr]]]. destruct (IHm Hms) as [ms' [E' [F' L']]].
    exists (r ++ ms'). cbn [rflatM]. rewrite Er. cbn [rbind]. rewrite E'. cbn [rbind]. split; auto.
    split; [apply Forall_app; auto|]. rewrite app_length. cbn [length]. lia. }
  destruct Hk as [ms' [E' [F' L']]]. destruct (IH ms' F') as [l [El [Fl Ll]]].
  exists l. cbn [bind_all_list]. rewrite E'. cbn [rbind]. split; auto. split; auto. lia.
Qed.

Lemma starts_facts (sq : list nat) :
  Forall isb (flat_map (fun v0 => match mbind string_dom SUnbound 0 v0 with Some m' => [m'] | None => [] end) (map N.of_nat sq))
  /\ length (flat_map (fun v0 => match mbind string_dom SUnbound 0 v0 with Some m' => [m'] | None => [] end) (map N.of_nat sq)) = length sq.
Proof.
  induction sq as [|x xs [F1 F2]]; cbn [map flat_map]; [split; [constructor|reflexivity]|].
  change (mbind string_dom SUnbound 0 (N.of_nat x)) with (Some (SBound (N.of_nat x) 1)). cbn [app].
  split; [constructor; [eexists _, _; reflexivity|exact F1]|cbn [length]; now rewrite F2].
Qed.

Lemma s_bind_all_length h inc ks m l :
  bind_all string_dom h m ks inc = Ok l -> (length l <= Nat.max 1 (N.to_nat (blen h)))%nat.
Proof.
  unfold bind_all. destruct m as [|s len].
  - revert l. induction ks as [|k ks IH]; intros l B.
    + cbn [bind_all_list] in B. inversion B; subst. cbn [length]. lia.
    + cbn [bind_all_list rflatM] in B.
      unfold bind_key at 1 in B. change (mget string_dom SUnbound k) with (sget SUnbound k) in B. cbn [sget] in B.
      cbn [opts string_dom rbind] in B. unfold s_opts in B.
      assert (Hempty : forall l0, bind_all_list string_dom h inc ks [] = Ok l0 -> l0 = []).
      { clear. induction ks; cbn; intros l0 B; [now inversion B|auto]. }
      destruct (N.eqb_spec k 0) as [->|Hk].
      * destruct (nseq (blen h)) as [|v vs] eqn:En.
        -- destruct inc; cbn [rbind app] in B; [apply IH; exact B|]. rewrite (Hempty _ B). cbn. lia.
        -- rewrite <- En in B. cbn [rbind] in B. rewrite app_nil_r in B.
           match type of B with bind_all_list _ _ _ _ ?X = _ => set (ms := X) in B end.
           assert (Hfm : Forall isb ms /\ length ms = N.to_nat (blen h)).
           { unfold ms, nseq. destruct (starts_facts (seq 0 (N.to_nat (blen h)))) as [F1 F2].
             rewrite seq_length in F2. split; assumption. }
           destruct Hfm as [HF Hlen].
           destruct (s_bind_list_isb h inc ks ms HF) as [l' [El [_ Ll]]]. rewrite El in B. inversion B; subst. lia.
      * cbn [rbind] in B. destruct inc; cbn [app rbind] in B; [apply IH; exact B|]. rewrite (Hempty _ B). cbn. lia.
  - intros B. destruct (s_bind_list_isb h inc ks [SBound s len]) as [l' [El [_ Ll]]].
    { constructor; [eexists _, _; reflexivity|constructor]. }
    rewrite El in B. inversion B; subst. cbn in Ll. lia.
Qed.

Lemma resolve_length {K V M H P} (D : DomOps K V M H P) (m : M) args vs :
  resolve_args D m args = inr vs -> length vs = length args.
Proof.
  revert vs. induction args as [|k ks IH]; intros vs R; cbn in R; [inversion R; reflexivity|].
  destruct (mget D m k); [|discriminate]. destruct (resolve_args D m ks) as [e|vs'] eqn:R'; inversion R; subst.
  cbn. now rewrite (IH vs' eq_refl).
Qed.

Lemma s_sat_total h (c : constraint N cpredicate) m :
  length (cargs c) = c_arity (cpred c) -> exists b, sat_or_false string_dom h c m = Ok b.
Proof.
  intros Ha. unfold sat_or_false, is_satisfied, is_satisfied_calls, rmap.
  destruct (resolve_args string_dom m (cargs c)) as [k|vs] eqn:R; [eexists; reflexivity|].
  pose proof (resolve_length string_dom m _ _ R) as Hl. rewrite Ha in Hl.
  cbn [check string_dom]. destruct c as [[|x] args]; cbn [cpred c_arity] in *.
  - destruct vs as [|a [|b [|? ?]]]; try discriminate. eexists. reflexivity.
  - destruct vs as [|a [|? ?]]; try discriminate. eexists. reflexivity.
Qed.

Lemma filter_sat_total h m (cts : list (constraint N cpredicate * N)) :
  (forall c t, In (c, t) cts -> length (cargs c) = c_arity (cpred c)) ->
  exists r, filter_sat string_dom h m cts = Ok r /\ (length r <= length cts)%nat.
Proof.
  induction cts as [|[c t] cts IH]; intros H; [exists []; auto|].
  destruct (s_sat_total h c m (H c t (or_introl eq_refl))) as [b Eb].
  destruct IH as [r [Er Hl]]; [intros c' t' Hin; apply (H c' t'); now right|].
  exists (if b then t :: r else r). cbn [filter_sat]. rewrite Eb. cbn [rbind]. rewrite Er. cbn [rbind]. split; auto.
  destruct b; cbn [length]; lia.
Qed.

(** ** the states of a well-formed automaton *)
Section StringTotal.
  Variable A : automaton N cpredicate.
  Variable ids : list N.
  Hypothesis HWF : WF string_dom A ids.
  Hypothesis HAR : arity_ok string_dom A = true.
  Variable h : shost.

  Lemma find_edge_unique (st : astate N cpredicate) e :
    In st (au_states A) -> In e (a_out st) -> find_edge (a_out st) (e_id e) = Some e.
  Proof.
    intros Hst He. pose proof (wf_edge_ids _ _ _ HWF st Hst) as Hnd. revert He Hnd.
    induction (a_out st) as [|x l IH]; intros He Hnd; [destruct He|]. cbn [find_edge map] in *.
    inversion Hnd as [|? ? Hn Hd]; subst. destruct He as [->|He].
    - now rewrite N.eqb_refl.
    - destruct (N.eqb_spec (e_id x) (e_id e)) as [Eq|]; [|auto].
      exfalso. apply Hn. rewrite Eq. now apply in_map.
  Qed.

  Lemma get_state_total t : In t (state_ids A) -> exists st, get_state A t = Ok st /\ In st (au_states A) /\ a_id st = t.
  Proof.
    unfold state_ids, get_state. intros Hin. apply in_map_iff in Hin as [st [E Hst]].
    assert (G : exists st', find_state (au_states A) t = Some st').
    { clear HWF HAR. induction (au_states A) as [|x l IH]; [destruct Hst|]. cbn.
      destruct (N.eqb_spec (a_id x) t); [eauto|]. destruct Hst as [->|Hst]; [contradiction|auto]. }
    destruct G as [st' G]. rewrite G. exists st'. split; auto.
    clear - G. induction (au_states A) as [|x l IH]; cbn in G; [discriminate|].
    destruct (N.eqb_spec (a_id x) t).
    - inversion G; subst. split; [now left|reflexivity].
    - destruct (IH G). split; [now right|assumption].
  Qed.

  Lemma cons_transitions_total st : In st (au_states A) ->
    exists cts, cons_transitions st = Ok cts /\ length cts = length (a_corder st).
  Proof.
    intros Hst. unfold cons_transitions. apply rmapM_total. intros id Hid.
    destruct (wf_corder _ _ _ HWF st Hst) as [_ Hiff]. apply Hiff in Hid as [e [He [Eid Hc]]].
    subst id. rewrite (find_edge_unique st e Hst He). destruct e as [eid tgt [c|]]; [eauto|]. cbn in Hc. contradiction.
  Qed.

  Lemma fail_next_total st : In st (au_states A) ->
    exists fo, fail_next_state st = Ok fo /\ forall t, fo = Some t -> exists e, In e (a_out st) /\ e_target e = t.
  Proof.
    intros Hst. unfold fail_next_state. pose proof (wf_one_eps _ _ _ HWF st Hst) as Hle.
    destruct (a_eorder st) as [|id [|id2 r]] eqn:Eo; [exists None; split; [auto|discriminate]| |cbn in Hle; lia].
    destruct (wf_eorder _ _ _ HWF st Hst) as [_ Hiff].
    assert (Hid : In id (a_eorder st)) by (rewrite Eo; now left).
    apply Hiff in Hid as [e [He [Eid _]]]. subst id. rewrite (find_edge_unique st e Hst He).
    exists (Some (e_target e)). split; auto. intros t X. inversion X; subst. eauto.
  Qed.

  Lemma edge_arity st c t cts : In st (au_states A) -> cons_transitions st = Ok cts -> In (c, t) cts ->
    length (cargs c) = c_arity (cpred c).
  Proof.
    intros Hst CT Hin. destruct (cons_transitions_edge st cts c t CT Hin) as [e [He [Ec _]]].
    unfold arity_ok in HAR. rewrite forallb_forall in HAR. specialize (HAR st Hst).
    rewrite forallb_forall in HAR. specialize (HAR e He). rewrite Ec in HAR. now apply Nat.eqb_eq in HAR.
  Qed.

  Definition cmax : nat := fold_right Nat.max 0%nat (map (fun st => length (a_corder st)) (au_states A)).

  Lemma cmax_ge st : In st (au_states A) -> (length (a_corder st) <= cmax)%nat.
  Proof.
    unfold cmax. induction (au_states A) as [|x l IH]; intros Hin; [destruct Hin|]. cbn [map fold_right].
    destruct Hin as [->|Hin]; [lia|]. specialize (IH Hin). lia.
  Qed.

  Definition Bh : nat := (Nat.max 1 (N.to_nat (blen h)) * S cmax)%nat.

  Lemma emissions_total st m : In st (au_states A) -> exists e, emissions string_dom h st m = Ok e.
  Proof.
    intros Hst. unfold emissions. apply rflatM_total'. intros [pid keys] Hpk.
    pose proof (wf_match_ordered _ _ _ HWF st (pid, keys) Hst Hpk) as Ho. cbn [snd] in Ho.
    cbn zeta.
    set (new_keys := filter (fun k => match mget string_dom m k with None => true | Some _ => false end) keys).
    assert (Hbs : exists bs, match new_keys with [] => Ok [m] | _ => bind_all string_dom h m new_keys false end = Ok bs).
    { destruct new_keys; [eauto|apply s_bind_all_total]. }
    destruct Hbs as [bs ->]. cbn [rbind].
    destruct (rmapM_total (mretain string_dom keys) bs) as [bs' [-> _]].
    { intros b _. now apply s_retain_total_ord. }
    cbn [rbind]. eauto.
  Qed.

  Lemma next_legal_total st m : In st (au_states A) ->
    exists ys, next_legal_states string_dom h st m = Ok ys /\ (length ys <= Bh)%nat
               /\ forall y, In y ys -> exists e, In e (a_out st) /\ e_target e = fst y.
  Proof.
    intros Hst. unfold next_legal_states.
    destruct (s_bind_all_total h m (a_scope st) true) as [cands B]. rewrite B. cbn [rbind].
    pose proof (s_bind_all_length h true _ _ _ B) as Hlc.
    destruct (rmapM_total (mretain string_dom (a_scope st)) cands) as [cands' [R Hl']].
    { intros b _. apply s_retain_total_ord. apply (wf_scope_ordered _ _ _ HWF st Hst). }
    rewrite R. cbn [rbind].
    destruct (cons_transitions_total st Hst) as [cts [CT Hlen]]. rewrite CT. cbn [rbind].
    destruct (fail_next_total st Hst) as [fo [FN Hfo]].
    pose proof (cmax_ge st Hst) as Hcm.
    destruct (rflatM_total (fun b =>
                let* fired := filter_sat string_dom h b cts in
                let needs_fail := negb (a_det st) || match fired with [] => true | _ => false end in
                let* fail := if needs_fail then fail_next_state st else Ok None in
                Ok (map (fun t => (t, b)) fired ++ match fail with Some t => [(t, b)] | None => [] end)) cands' (S cmax))
      as [ys [E Hly]].
    { intros b _. destruct (filter_sat_total h b cts) as [fired [FS Hlf]].
      { intros c t Hin. eapply edge_arity; eauto. }
      rewrite FS. cbn [rbind]. cbn zeta.
      destruct (negb (a_det st) || match fired with [] => true | _ => false end).
      - rewrite FN. cbn [rbind]. eexists. split; [reflexivity|]. rewrite app_length, map_length.
        destruct fo; cbn [length]; lia.
      - cbn [rbind]. eexists. split; [reflexivity|]. rewrite app_length, map_length. cbn [length]. lia. }
    exists ys. split; [exact E|]. split.
    - unfold Bh. rewrite Hl' in Hly. nia.
    - intros [t b] Hy. cbn [fst].
      destruct (proj1 (rflatM_in _ _ _ _ E) Hy) as [b0 [zs [Hb [Hf Hz]]]].
      destruct (filter_sat string_dom h b0 cts) as [fired| |] eqn:FS; cbn [rbind] in Hf; try discriminate.
      cbn zeta in Hf.
      destruct (if negb (a_det st) || match fired with [] => true | _ => false end then fail_next_state st else Ok None)
        as [fail| |] eqn:FN'; cbn [rbind] in Hf; try discriminate.
      inversion Hf; subst zs. apply in_app_or in Hz as [Hz|Hz].
      + apply in_map_iff in Hz as [t0 [Et Ht]]. inversion Et; subst.
        destruct (StringUnique.filter_sat_bwd string_dom h b cts fired t FS Ht) as [c [Hct _]].
        destruct (cons_transitions_edge st cts c t CT Hct) as [e [He [_ Het]]]. eauto.
      + destruct fail as [t0|]; [|destruct Hz]. destruct Hz as [Et|[]]. inversion Et; subst.
        apply Hfo. destruct (negb (a_det st) || match fired with [] => true | _ => false end); [congruence|discriminate].
  Qed.

  (** ** the measure: items weigh more the closer their state is to the root *)
  Variable rank : N -> nat.
  Hypothesis Hrank : forall s e, In s (au_states A) -> In e (a_out s) -> (rank (a_id s) < rank (e_target e))%nat.

  Definition rmax : nat := fold_right Nat.max 0%nat (map rank (state_ids A)).
  Lemma rmax_ge t : In t (state_ids A) -> (rank t <= rmax)%nat.
  Proof.
    unfold rmax. induction (state_ids A) as [|x l IH]; intros Hin; [destruct Hin|]. cbn [map fold_right].
    destruct Hin as [->|Hin]; [lia|]. specialize (IH Hin). lia.
  Qed.

  Definition weight (t : N) : nat := Nat.pow (S Bh) (rmax - rank t).
  Definition measure (q : list (N * spm)) : nat := fold_right (fun x acc => (weight (fst x) + acc)%nat) 0%nat q.

  Lemma weight_pos t : (1 <= weight t)%nat.
  Proof. unfold weight. pose proof (Nat.pow_nonzero (S Bh) (rmax - rank t)). lia. Qed.

  Lemma measure_app q1 q2 : measure (q1 ++ q2) = (measure q1 + measure q2)%nat.
  Proof. unfold measure. induction q1 as [|x q IH]; cbn [app fold_right]; [reflexivity|]. rewrite IH. lia. Qed.

  Lemma measure_bound ys w : (forall y, In y ys -> (weight (fst y) <= w)%nat) -> (measure ys <= length ys * w)%nat.
  Proof.
    induction ys as [|y ys IH]; intros H; [cbn; lia|]. cbn [measure fold_right length].
    specialize (H y (or_introl eq_refl)) as Hy. fold (measure ys).
    assert (measure ys <= length ys * w)%nat by (apply IH; intros z Hz; apply H; now right). lia.
  Qed.

  (** successors weigh less than their source, all together *)
  Lemma successors_lighter st ys :
    In st (au_states A) -> (length ys <= Bh)%nat ->
    (forall y, In y ys -> exists e, In e (a_out st) /\ e_target e = fst y) ->
    (measure ys + 1 <= weight (a_id st))%nat.
  Proof.
    intros Hst Hlen Hsucc.
    assert (Hid : In (a_id st) (state_ids A)) by (unfold state_ids; now apply in_map).
    pose proof (rmax_ge _ Hid) as Hr.
    destruct ys as [|y0 ys'] eqn:Ey; [cbn; apply weight_pos|]. rewrite <- Ey in *.
    (* some successor exists: the rank of st is below rmax *)
    assert (Hlt : (rank (a_id st) < rmax)%nat).
    { destruct (Hsucc y0) as [e [He Het]]; [rewrite Ey; now left|].
      pose proof (Hrank st e Hst He). pose proof (rmax_ge _ (wf_targets _ _ _ HWF st e Hst He)). lia. }
    unfold weight at 1. destruct (rmax - rank (a_id st))%nat as [|d] eqn:Ed; [lia|]. rewrite Nat.pow_succ_r'.
    set (P := Nat.pow (S Bh) d).
    assert (HP : (1 <= P)%nat) by (unfold P; pose proof (Nat.pow_nonzero (S Bh) d); lia).
    assert (Hys : (measure ys <= length ys * P)%nat).
    { apply measure_bound. intros y Hy. destruct (Hsucc y Hy) as [e [He Het]].
      pose proof (Hrank st e Hst He) as Hre. rewrite Het in Hre. unfold weight, P.
      apply Nat.pow_le_mono_r; lia. }
    nia.
  Qed.

  Lemma run_loop_total : forall fuel queue vis acc,
    (forall x, In x queue -> In (fst x) (state_ids A)) -> (measure queue < fuel)%nat ->
    exists ms, run_loop string_dom fuel A h queue vis acc = Ok ms.
  Proof.
    induction fuel as [|f IH]; intros queue vis acc Hq Hm; [lia|]. cbn [run_loop].
    destruct queue as [|[t m] q]; [eauto|].
    destruct (get_state_total t (Hq (t, m) (or_introl eq_refl))) as [st [G [Hst Hid]]]. rewrite G. cbn [rbind].
    cbn [measure fold_right fst] in Hm. fold (measure q) in Hm. pose proof (weight_pos t).
    destruct (visited_mem string_dom t (view string_dom st m) vis).
    - apply IH; [intros x Hx; apply Hq; now right|lia].
    - destruct (emissions_total st m Hst) as [e ->]. cbn [rbind].
      destruct (next_legal_total st m Hst) as [ys [-> [Hlen Hsucc]]]. cbn [rbind].
      apply IH.
      + intros x Hx. apply in_app_or in Hx as [Hx|Hx]; [apply Hq; now right|].
        destruct (Hsucc x Hx) as [e' [He' <-]]. apply (wf_targets _ _ _ HWF st e' Hst He').
      + rewrite measure_app. pose proof (successors_lighter st ys Hst Hlen Hsucc) as Hl. rewrite Hid in Hl. lia.
  Qed.
End StringTotal.

(** the traversal of a well-formed string automaton never panics and terminates *)
Theorem s_run_total (A : automaton N cpredicate) rk ids h :
  wf_check string_dom A rk ids = true -> arity_ok string_dom A = true ->
  exists fuel0, forall fuel, (fuel0 <= fuel)%nat -> exists ms, run string_dom fuel A h = Ok ms.
Proof.
  intros W HAR. pose proof (wf_check_sound string_dom LawfulDomains.string_dom_eq A rk ids W) as HWF.
  destruct (wf_acyclic _ _ _ HWF) as [rank Hrank].
  exists (S (weight A h rank (au_root A))). intros fuel Hf. unfold run.
  apply (run_loop_total A ids HWF HAR h rank Hrank).
  - intros x [<-|[]]. cbn. apply (wf_rooted _ _ _ HWF).
  - cbn. lia.
Qed.
