(** Strings: the traversal on a well-formed automaton never panics and
    terminates (C08, matching half): for every host there is a fuel bound beyond
    which [run] returns [Ok]. *)
From PM Require Import Model.Prelude Model.Domain Model.Constraint Model.BindAll Model.Automaton Model.Traversal
  Model.BindMaps Model.DomString Cert.CharCert Cert.WfCheck
  Proofs.BindAllProofs Proofs.BindMapProofs Proofs.BindMapHistories Proofs.WfSound Proofs.StringRun Proofs.StringUnique Proofs.RunTotal.
Local Open Scope N_scope.
Arguments N.max : simpl never.
Arguments N.add : simpl never.
Arguments N.ltb : simpl never.
Arguments N.eqb : simpl never.

(** ** the components never panic *)
Lemma s_bind_all_total h m ks inc : exists l, bind_all string_dom h m ks inc = Ok l.
Proof.
  destruct (extend_total string_dom h inc ks (fun k m0 => ex_intro _ (s_opts h k m0) eq_refl) m) as [r Hr].
  exists r. now apply bind_all_eq_spec.
Qed.

Lemma s_retain_total_ord order m : prereq_ordered string_dom order -> exists m', mretain string_dom order m = Ok m'.
Proof.
  intros Ho. destruct order as [|k ks] eqn:E.
  - exists SUnbound. reflexivity.
  - apply s_retain_total. split; [apply Ho|]. rewrite (s_prereq_head _ k ks Ho eq_refl). now left.
Qed.

(** the number of candidates bind_all produces *)
Definition isb (m : spm) : Prop := exists s l, m = SBound s l.

Lemma s_bind_key_isb h inc k s l :
  exists r, bind_key string_dom h inc k (SBound s l) = Ok r /\ Forall isb r /\ (length r <= 1)%nat.
Proof.
  unfold bind_key. change (mget string_dom (SBound s l) k) with (sget (SBound s l) k). cbn [sget].
  destruct (N.ltb_spec k l).
  - eexists. split; [reflexivity|]. split; [constructor; [exists s, l; auto|constructor]|cbn; lia].
  - cbn [opts string_dom rbind]. unfold s_opts. destruct (N.eqb_spec k 0) as [->|Hk].
    + destruct (nseq (blen h)) as [|v vs] eqn:En.
      * destruct inc; eexists; (split; [reflexivity|]); (split; [|cbn; lia]); constructor; [exists s, l; auto|constructor].
      * rewrite <- En. exists []. split; [|split; [constructor|cbn; lia]].
        assert (flat_map (fun v0 => match mbind string_dom (SBound s l) 0 v0 with Some m' => [m'] | None => [] end) (nseq (blen h)) = []) as ->; [|reflexivity].
        clear. induction (nseq (blen h)) as [|x xs IH]; cbn [flat_map]; auto.
    + destruct (N.ltb_spec (s + k) (blen h)).
      * cbn [flat_map]. change (mbind string_dom (SBound s l) k (s + k)) with (sbind (SBound s l) k (s + k)).
        unfold sbind. destruct (N.eqb_spec k 0); [contradiction|]. cbn [app].
        eexists. split; [reflexivity|]. split; [constructor; [eexists _, _; reflexivity|constructor]|cbn; lia].
      * destruct inc; eexists; (split; [reflexivity|]); (split; [|cbn; lia]); constructor; [exists s, l; auto|constructor].
Qed.

Lemma s_bind_list_isb h inc : forall ks ms, Forall isb ms ->
  exists l, bind_all_list string_dom h inc ks ms = Ok l /\ Forall isb l /\ (length l <= length ms)%nat.
Proof.
  induction ks as [|k ks IH]; intros ms HF; [exists ms; cbn; auto|].
  assert (Hk : exists ms', rflatM (bind_key string_dom h inc k) ms = Ok ms' /\ Forall isb ms' /\ (length ms' <= length ms)%nat).
  { clear IH. induction ms as [|m ms IHm]; [exists []; cbn; auto|].
    inversion HF as [|? ? Hm Hms]; subst. destruct Hm as [s [l ->]].
    destruct (s_bind_key_isb h inc k s l) as [r [Er [Fr Lr]]]. destruct (IHm Hms) as [ms' [E' [F' L']]].
    exists (r ++ ms'). cbn [rflatM]. rewrite Er. cbn [rbind]. rewrite E'. cbn [rbind]. split; auto.
    split; [apply Forall_app; auto|]. rewrite app_length. cbn [length]. lia. }
  destruct Hk as [ms' [E' [F' L']]]. destruct (IH ms' F') as [l [El [Fl Ll]]].
  exists l. cbn [bind_all_list]. rewrite E'. cbn [rbind]. split; auto. split; auto. lia.
Qed.

Lemma starts_facts (sq : list nat) :
  Forall isb (flat_map (fun v0 => match mbind string_dom SUnbound 0 v0 with Some m' => [m'] | None => [] end) (map N.of_nat sq))
  /\ length (flat_map (fun v0 => match mbind string_dom SUnbound 0 v0 with Some m' => [m'] | None => [] end) (map N.of_nat sq)) = length sq.
Proof.
  induction sq as [|x xs [F1 F2]]; cbn [map flat_map]; [split; [constructor|reflexivity]|].
  change (mbind string_dom SUnbound 0 (N.of_nat x)) with (Some (SBound (N.of_nat x) 1)). cbn [app].
  split; [constructor; [eexists _, _; reflexivity|exact F1]|cbn [length]; now rewrite F2].
Qed.

Lemma s_bind_all_length h inc ks m l :
  bind_all string_dom h m ks inc = Ok l -> (length l <= Nat.max 1 (N.to_nat (blen h)))%nat.
Proof.
  unfold bind_all. destruct m as [|s len].
  - revert l. induction ks as [|k ks IH]; intros l B.
    + cbn [bind_all_list] in B. inversion B; subst. cbn [length]. lia.
    + cbn [bind_all_list rflatM] in B.
      unfold bind_key at 1 in B. change (mget string_dom SUnbound k) with (sget SUnbound k) in B. cbn [sget] in B.
      cbn [opts string_dom rbind] in B. unfold s_opts in B.
      assert (Hempty : forall l0, bind_all_list string_dom h inc ks [] = Ok l0 -> l0 = []).
      { clear. induction ks; cbn; intros l0 B; [now inversion B|auto]. }
      destruct (N.eqb_spec k 0) as [->|Hk].
      * destruct (nseq (blen h)) as [|v vs] eqn:En.
        -- destruct inc; cbn [rbind app] in B; [apply IH; exact B|]. rewrite (Hempty _ B). cbn. lia.
        -- rewrite <- En in B. cbn [rbind] in B. rewrite app_nil_r in B.
           match type of B with bind_all_list _ _ _ _ ?X = _ => set (ms := X) in B end.
           assert (Hfm : Forall isb ms /\ length ms = N.to_nat (blen h)).
           { unfold ms, nseq. destruct (starts_facts (seq 0 (N.to_nat (blen h)))) as [F1 F2].
             rewrite seq_length in F2. split; assumption. }
           destruct Hfm as [HF Hlen].
           destruct (s_bind_list_isb h inc ks ms HF) as [l' [El [_ Ll]]]. rewrite El in B. inversion B; subst. lia.
      * cbn [rbind] in B. destruct inc; cbn [app rbind] in B; [apply IH; exact B|]. rewrite (Hempty _ B). cbn. lia.
  - intros B. destruct (s_bind_list_isb h inc ks [SBound s len]) as [l' [El [_ Ll]]].
    { constructor; [eexists _, _; reflexivity|constructor]. }
    rewrite El in B. inversion B; subst. cbn in Ll. lia.
Qed.

Lemma s_sat_total h (c : constraint N cpredicate) m :
  length (cargs c) = c_arity (cpred c) -> exists b, sat_or_false string_dom h c m = Ok b.
Proof.
  intros Ha. unfold sat_or_false, is_satisfied, is_satisfied_calls, rmap.
  destruct (resolve_args string_dom m (cargs c)) as [k|vs] eqn:R; [eexists; reflexivity|].
  pose proof (resolve_length string_dom m _ _ R) as Hl. rewrite Ha in Hl.
  cbn [check string_dom]. destruct c as [[|x] args]; cbn [cpred c_arity] in *.
  - destruct vs as [|a [|b [|? ?]]]; try discriminate. eexists. reflexivity.
  - destruct vs as [|a [|? ?]]; try discriminate. eexists. reflexivity.
Qed.


(** the traversal of a well-formed string automaton never panics and terminates *)
Theorem s_run_total (A : automaton N cpredicate) rk ids h :
  wf_check string_dom A rk ids = true -> arity_ok string_dom A = true ->
  exists fuel0, forall fuel, (fuel0 <= fuel)%nat -> exists ms, run string_dom fuel A h = Ok ms.
Proof.
  intros W HAR. pose proof (wf_check_sound string_dom LawfulDomains.string_dom_eq A rk ids W) as HWF.
  destruct (wf_acyclic _ _ _ HWF) as [rank Hrank].
  apply (run_total_gen string_dom A ids HWF HAR h (fun _ => True) (fun _ => True) (fun _ _ => I) (Nat.max 1 (N.to_nat (blen h))) I (fun _ => True)) with (rank := rank); auto.
  - intros m ks inc _ _. destruct (s_bind_all_total h m ks inc) as [l B]. exists l. split; auto.
    split; [eapply s_bind_all_length; eauto|apply Forall_forall; auto].
  - intros st m Hst _. destruct (s_retain_total_ord (a_scope st) m (wf_scope_ordered _ _ _ HWF st Hst)) as [m' E]. eauto.
  - intros st pk m Hst Hpk _. apply s_retain_total_ord. apply (wf_match_ordered _ _ _ HWF st pk Hst Hpk).
  - intros c m Ha _. now apply s_sat_total.
Qed.
