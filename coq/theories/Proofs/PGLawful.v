(** Port graphs: the modelled domain (Model/DomPG.v) is lawful, a not-equal
    constraint is equivalent to its pairwise atoms, hence the generic soundness
    theorem of the traversal (RunSound.run_sound) applies to port-graph automata
    that pass [lab_ok] with these atoms. *)
From PM Require Import Model.Prelude Model.Domain Model.Constraint Model.BindMaps Model.Automaton Model.Traversal
  Model.DomPGKeys Model.DomPG Cert.LabCheck Cert.PGCert Proofs.BindMapProofs Proofs.RunSound Proofs.PGTreeProofs.
Local Open Scope N_scope.

Lemma pgpred_eqb_eq a b : pgpred_eqb a b = true <-> a = b.
Proof. unfold pgpred_eqb. rewrite <- pgpred_cmp_eq. destruct (pgpred_cmp a b); split; intros; try discriminate; auto. Qed.

Lemma pg_dom_eq : DomEq pg_dom.
Proof.
  constructor; cbn.
  - apply pgkey_eqb_eq.
  - apply N.eqb_eq.
  - apply pgpred_eqb_eq.
Qed.

Theorem pg_lawful : Lawful pg_dom (fun _ _ => True) (fun _ => true).
Proof.
  constructor; cbn; auto.
  - intros m k v m' B k' v' G.
    destruct (abind_get pgkey_eqb N.eqb pgkey_eqb_eq m k v m' B) as [Hk Ho].
    destruct (pgkey_eqb k' k) eqn:E.
    + apply pgkey_eqb_eq in E. subst k'.
      destruct (proj1 (abind_ok_iff pgkey_eqb N.eqb N.eqb_eq m k v) (ex_intro _ m' B)) as [C|C].
      * unfold pgget in G. congruence.
      * unfold pgget in G. rewrite C in G. inversion G; subst. exact Hk.
    + unfold pgget. rewrite Ho; auto. intros ->. rewrite (proj2 (pgkey_eqb_eq k k) eq_refl) in E. discriminate.
  - intros h ks m m' _ _ R. inversion R; subst. split; auto. intros k Hk. unfold pgget.
    rewrite (aretain_get pgkey_eqb pgkey_eqb_eq ks m k).
    rewrite (proj2 (memb_in pgkey_eqb pgkey_eqb_eq k ks) Hk). reflexivity.
Qed.

Lemma resolve_cons_inr (m : pgmap) k ks vs :
  resolve_args pg_dom m (k :: ks) = inr vs <->
  exists v vs', pgget m k = Some v /\ resolve_args pg_dom m ks = inr vs' /\ vs = v :: vs'.
Proof.
  cbn [resolve_args]. change (mget pg_dom m k) with (pgget m k). destruct (pgget m k) as [v|]; split.
  - destruct (resolve_args pg_dom m ks) as [e|vs'] eqn:R; intros X; inversion X; subst. exists v, vs'. auto.
  - intros [v0 [vs' [E [R ->]]]]. inversion E; subst. rewrite R. reflexivity.
  - intros X. discriminate.
  - intros [v0 [vs' [E _]]]. discriminate.
Qed.

Lemma pg_atoms_sound h (c : pgconstraint) (m : pgmap) :
  (forall a, In a (pg_atoms c) -> holds pg_dom h a m) -> holds pg_dom h c m.
Proof.
  unfold pg_atoms. destruct c as [p args]. cbn [cpred cargs].
  destruct p as [|l r|n]; try (intros H; apply H; now left).
  destruct args as [|k [|o others]]; try (intros H; apply H; now left).
  intros H.
  (* every pair (k, o') holds *)
  assert (Hk : exists v, pgget m k = Some v).
  { destruct (H _ (or_introl eq_refl)) as [vs [R _]]. cbn [cargs] in R.
    apply resolve_cons_inr in R as [v [_ [E _]]]. eauto. }
  destruct Hk as [v Hv].
  assert (Hall : forall o', In o' (o :: others) -> exists w, pgget m o' = Some w /\ w <> v).
  { intros o' Ho'. destruct (H {| cpred := IsNotEqual 1; cargs := [k; o'] |}) as [vs [R C]].
    { apply in_map_iff. exists o'. auto. }
    cbn [cargs cpred] in R, C. apply resolve_cons_inr in R as [v1 [vs1 [E1 [R1 ->]]]].
    apply resolve_cons_inr in R1 as [w [vs2 [E2 [R2 ->]]]]. cbn in R2. inversion R2; subst vs2.
    rewrite Hv in E1. inversion E1; subst v1. exists w. split; auto.
    cbn in C. inversion C as [C']. unfold nmem in C'. cbn in C'. destruct (N.eqb_spec v w); [discriminate|]. congruence. }
  (* all arguments resolve *)
  assert (Hres : exists ws, resolve_args pg_dom m (o :: others) = inr ws /\ forall w, In w ws -> w <> v).
  { clear H. induction (o :: others) as [|o' l IH]; [exists []; split; [reflexivity|intros w []]|].
    destruct (Hall o' (or_introl eq_refl)) as [w [Ew Hw]].
    destruct IH as [ws [Rw Hws]]; [intros x Hx; apply Hall; now right|].
    exists (w :: ws). split.
    - apply resolve_cons_inr. exists w, ws. auto.
    - intros w' [<-|Hw']; auto. }
  destruct Hres as [ws [Rw Hws]].
  exists (v :: ws). split.
  - cbn [cargs]. apply resolve_cons_inr. exists v, ws. auto.
  - cbn [cpred check pg_dom pg_check]. f_equal. apply negb_true_iff.
    destruct (nmem v ws) eqn:E; auto. apply (memb_in N.eqb N.eqb_eq) in E. exfalso. apply (Hws v E). reflexivity.
Qed.

Lemma pg_atoms_complete h (c : pgconstraint) (m : pgmap) :
  holds pg_dom h c m -> forall a, In a (pg_atoms c) -> holds pg_dom h a m.
Proof.
  unfold pg_atoms. destruct c as [p args]. cbn [cpred cargs].
  destruct p as [|l r|n]; try (intros H a [<-|[]]; exact H).
  destruct args as [|k [|o others]]; try (intros H a [<-|[]]; exact H).
  intros [vs [R C]] a Ha. apply in_map_iff in Ha as [o' [<- Ho']].
  cbn [cargs cpred] in R, C. apply resolve_cons_inr in R as [v [ws [Ev [Rw ->]]]].
  cbn in C. inversion C as [C']. apply negb_true_iff in C'.
  (* o' resolves to some w in ws *)
  assert (Hw : exists w, pgget m o' = Some w /\ In w ws).
  { clear C C'. revert ws Rw. induction (o :: others) as [|x l IH]; intros ws Rw; [destruct Ho'|].
    apply resolve_cons_inr in Rw as [w [ws' [Ew [Rw' ->]]]]. destruct Ho' as [->|Ho'].
    - exists w. split; auto. now left.
    - destruct (IH Ho' ws' Rw') as [w' [E' I']]. exists w'. split; auto. now right. }
  destruct Hw as [w [Ew Hin]].
  exists [v; w]. split.
  - cbn [cargs]. apply resolve_cons_inr. exists v, [w]. split; auto. split; auto.
    apply resolve_cons_inr. exists w, []. auto.
  - cbn. f_equal. unfold nmem. cbn. destruct (N.eqb_spec v w) as [->|]; auto.
    exfalso. unfold nmem in C'. rewrite (proj2 (memb_in N.eqb N.eqb_eq w ws) Hin) in C'. discriminate.
Qed.

(** every match reported on a labelled port-graph automaton satisfies every
    constraint of its pattern's constraint vector under the reported bindings *)
Theorem pg_run_sound (A : automaton pgkey pgpred) (L : labelling) (cs : list (list pgconstraint)) :
  lab_ok pg_dom (fun _ => true) pg_atoms A L cs = true ->
  forall (h : pghost) (fuel : nat) (ms : list (N * pgmap)),
    run pg_dom fuel A h = Ok ms ->
    forall pm, In pm ms ->
      exists cp, nth_error cs (N.to_nat (fst pm)) = Some cp
                 /\ forall c, In c cp -> holds pg_dom h c (snd pm).
Proof.
  intros C h fuel ms R pm Hin.
  exact (proj2 (run_sound pg_dom pg_dom_eq (fun _ _ => True) (fun _ => true) pg_atoms pg_lawful
                  pg_atoms_sound pg_atoms_complete A L cs C h fuel ms R pm Hin)).
Qed.
