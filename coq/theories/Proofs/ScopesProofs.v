(** populate_scopes (Model/Scopes.v), for every transition graph: whenever it
    returns, each state's scope lists every key after its prerequisites, without
    repetition, and contains the arguments of every constraint the state's
    constraint order lists — the last sentence of C09, proved of the algorithm
    rather than checked on its output.  The one thing asked of the graph is that
    the key lists recorded with the accepted patterns are prerequisite-first. *)
From PM Require Import Model.Prelude Model.Domain Model.Scheme Model.Automaton Cert.WfCheck Model.Scopes
  Spec.TopoSpec Proofs.SchemeProofs.

Section ScopesProofs.
  Context {K V M H P : Type} (D : DomOps K V M H P).
  Hypothesis HD : DomEq D.
  Hypothesis Hacyc : acyclic (req D).
  Notation C := (constraint K P).
  Notation po := (prereq_ordered D).

  Let keq := keqb_spec D HD.
  Let mem_in := memb_in (keqb D) keq.
  Let mem_nin := memb_not_in (keqb D) keq.

  Definition closed (l : list K) : Prop := forall k, In k l -> forall r, In r (req D k) -> In r l.

  Lemma po_nil : po [].
  Proof. split; [constructor|]. intros l1 k l2 E. destruct l1; discriminate. Qed.

  Lemma po_closed l : po l -> closed l.
  Proof.
    intros [_ Ho] k Hk r Hr. apply in_split in Hk as [l1 [l2 E]].
    rewrite E. apply in_or_app. left. exact (Ho l1 k l2 E r Hr).
  Qed.

  Lemma nodup_app (a b : list K) : NoDup a -> NoDup b -> (forall x, In x b -> ~ In x a) -> NoDup (a ++ b).
  Proof.
    intros Ha Hb Hd. induction a as [|x a IH]; cbn [app]; [exact Hb|].
    inversion Ha as [|? ? Hx Ha']; subst. constructor.
    - intros Hin. apply in_app_or in Hin as [Hin|Hin]; [tauto|]. apply (Hd x Hin). now left.
    - apply IH; [exact Ha'|]. intros y Hy Hya. apply (Hd y Hy). now right.
  Qed.

  (** extending a prerequisite-first list by all_missing_bindings *)
  Lemma po_extend fuel keys known ext : po known -> amb_known D fuel keys known = Ok ext ->
    po (known ++ ext) /\ incl keys (known ++ ext).
  Proof.
    intros [Hnd Ho] E. unfold amb_known in E.
    destruct (all_missing_ok (keqb D) (req D) keq fuel keys known ext Hacyc E) as [Hnd' [Hset [Hpf Hdis]]].
    split; [split|].
    - apply nodup_app; auto.
    - intros l1 k l2 Es r Hr. apply app_eq_app in Es as [t [[E1 E2]|[E1 E2]]].
      + (* known = l1 ++ t, k :: l2 = t ++ ext *)
        destruct t as [|t0 t'].
        * cbn [app] in E2. rewrite app_nil_r in E1. subst l1.
          destruct (memb (keqb D) r known) eqn:Er; [now apply mem_in in Er|apply mem_nin in Er].
          exfalso. assert (Hin : In r []) by (eapply (Hpf [] k l2); eauto). destruct Hin.
        * cbn [app] in E2. inversion E2; subst t0. eapply Ho; eauto.
      + (* l1 = known ++ t, ext = t ++ k :: l2 *)
        rewrite E1. apply in_or_app.
        destruct (memb (keqb D) r known) eqn:Er; [left; now apply mem_in in Er|apply mem_nin in Er].
        right. eapply Hpf; eauto.
    - intros k Hk. apply in_or_app.
      destruct (memb (keqb D) k known) eqn:Ek; [left; now apply mem_in in Ek|apply mem_nin in Ek].
      right. apply Hset. exists k. split; [exact Hk|]. now constructor.
  Qed.

  Lemma filter_split' {X} (p : X -> bool) : forall l l1 x l2, filter p l = l1 ++ x :: l2 ->
    exists k1 k2, l = k1 ++ x :: k2 /\ l1 = filter p k1 /\ l2 = filter p k2.
  Proof.
    induction l as [|y ys IH]; intros l1 x l2 E; cbn [filter] in E; [destruct l1; discriminate|].
    destruct (p y) eqn:Py.
    - destruct l1 as [|z l1']; cbn [app] in E.
      + inversion E; subst. exists [], ys. cbn. auto.
      + inversion E as [[Ez Et]]. subst z. destruct (IH l1' x l2 Et) as [k1 [k2 [E1 [E2 E3]]]].
        exists (y :: k1), k2. cbn [app filter]. rewrite Py. subst. auto.
    - destruct (IH l1 x l2 E) as [k1 [k2 [E1 [E2 E3]]]]. exists (y :: k1), k2. cbn [app filter]. rewrite Py. subst. auto.
  Qed.

  (** retain: keeping the keys that lie in a prerequisite-closed set *)
  Lemma po_intersect a b : po a -> closed b -> po (intersect_vec D a b).
  Proof.
    intros [Hnd Ho] Hb. unfold intersect_vec. split; [now apply NoDup_filter|].
    intros l1 k l2 E r Hr. destruct (filter_split' _ a l1 k l2 E) as [k1 [k2 [Ea [E1 _]]]].
    assert (Hkb : In k b).
    { assert (Hin : In k (filter (fun x : K => memb (keqb D) x b) a)) by (rewrite E; apply in_or_app; right; now left).
      apply filter_In in Hin as [_ Hm]. now apply mem_in in Hm. }
    rewrite E1. apply filter_In. split; [exact (Ho k1 k k2 Ea r Hr)|]. apply mem_in. exact (Hb k Hkb r Hr).
  Qed.

  Lemma po_reduce l : (forall x, In x l -> po x) -> po (reduce_scopes D l).
  Proof.
    destruct l as [|a l]; cbn [reduce_scopes]; intros Hl; [exact po_nil|].
    assert (Ha : po a) by (apply Hl; now left).
    assert (Hl' : forall x, In x l -> po x) by (intros x Hx; apply Hl; now right).
    clear Hl. revert a Ha. induction l as [|b l IH]; intros a Ha; cbn [fold_left]; [exact Ha|].
    apply IH; [intros x Hx; apply Hl'; now right|]. apply po_intersect; [exact Ha|].
    apply po_closed. apply Hl'. now left.
  Qed.

  Lemma lookup_in (m : list (N * list K)) id l : lookup_scope m id = Ok l -> In (id, l) m.
  Proof.
    induction m as [|[i x] m IH]; cbn [lookup_scope]; [discriminate|].
    destruct (N.eqb_spec i id) as [->|_]; [intros E; inversion E; now left|]. intros E. right. auto.
  Qed.

  Lemma rmapM_in' {X Y} (f : X -> res Y) l r y :
    rmapM f l = Ok r -> In y r -> exists x, In x l /\ f x = Ok y.
  Proof.
    revert r. induction l as [|x l IH]; intros r R Hin; cbn [rmapM] in R.
    - inversion R; subst. destruct Hin.
    - destruct (f x) as [y0| |] eqn:Fx; cbn [rbind] in R; try discriminate.
      destruct (rmapM f l) as [ys| |] eqn:Rl; cbn [rbind] in R; try discriminate.
      inversion R; subst. destruct Hin as [<-|Hin]; [exists x; split; [now left|exact Fx]|].
      destruct (IH ys eq_refl Hin) as [x' [Hx' Fx']]. exists x'. split; [now right|exact Fx'].
  Qed.

  (** the forward pass keeps every scope prerequisite-first *)
  Lemma forward_po fuel A : forall order acc fw,
    (forall id l, In (id, l) acc -> po l) ->
    forward_scopes D fuel A order acc = Ok fw -> forall id l, In (id, l) fw -> po l.
  Proof.
    induction order as [|n order IH]; intros acc fw Hacc E; cbn [forward_scopes] in E.
    - inversion E; subst. exact Hacc.
    - destruct (rmapM _ (incoming A n)) as [ps| |] eqn:R; cbn [rbind] in E; try discriminate.
      refine (IH _ fw _ E). intros id l [Ein|Hin]; [|eauto].
      inversion Ein; subst. apply po_reduce. intros x Hx.
      destruct (rmapM_in' _ _ _ _ R Hx) as [[src e] [_ Fx]]. cbn [fst snd] in Fx.
      destruct (lookup_scope acc src) as [parent| |] eqn:L; cbn [rbind] in Fx; try discriminate.
      destruct (amb_known D fuel (edge_args e) parent) as [ext| |] eqn:Ea; cbn [rbind] in Fx; try discriminate.
      inversion Fx; subst. apply lookup_in in L.
      exact (proj1 (po_extend fuel _ _ _ (Hacc _ _ L) Ea)).
  Qed.

  Lemma uniq_acc_sub (l : list K) : forall seen x, In x (uniq_acc (keqb D) seen l) -> In x l.
  Proof.
    induction l as [|y l IH]; intros seen x Hin; cbn [uniq_acc] in Hin; [destruct Hin|].
    destruct (memb (keqb D) y seen); [right; eauto|]. destruct Hin as [->|Hin]; [now left|right; eauto].
  Qed.

  Lemma uniq_acc_sup (l : list K) : forall seen x, In x l -> In x seen \/ In x (uniq_acc (keqb D) seen l).
  Proof.
    induction l as [|y l IH]; intros seen x Hi; [destruct Hi|]. cbn [uniq_acc].
    destruct (memb (keqb D) y seen) eqn:Em.
    - destruct Hi as [->|Hi]; [left; now apply mem_in|]. now apply IH.
    - destruct Hi as [->|Hi]; [right; now left|]. destruct (IH (y :: seen) x Hi) as [[->|Hs]|Hu]; auto.
      + right. now left.
      + right. now right.
  Qed.

  Lemma uniq_iff (l : list K) x : In x (uniq (keqb D) l) <-> In x l.
  Proof.
    unfold uniq. split; [apply uniq_acc_sub|]. intros Hi.
    destruct (uniq_acc_sup l [] x Hi) as [[]|Hu]. exact Hu.
  Qed.

  Lemma closed_app a b : closed a -> closed b -> closed (a ++ b).
  Proof.
    intros Ha Hb k Hk r Hr. apply in_or_app. apply in_app_or in Hk as [Hk|Hk]; [left|right]; eauto.
  Qed.

  Lemma closed_concat (ls : list (list K)) : (forall l, In l ls -> closed l) -> closed (concat ls).
  Proof.
    intros Hl k Hk r Hr. apply in_concat in Hk as [l [Hin Hkl]]. apply in_concat. exists l. split; [exact Hin|].
    exact (Hl l Hin k Hkl r Hr).
  Qed.

  Section Graph.
    Variable A : automaton K P.
    Hypothesis Hmatch : forall s pk, In s (au_states A) -> In pk (a_matches s) -> po (snd pk).

    Lemma get_state_in' id s : get_state A id = Ok s -> In s (au_states A).
    Proof.
      unfold get_state. destruct (find_state (au_states A) id) as [s'|] eqn:F; [|discriminate].
      intros E. inversion E; subst. clear E. revert F. generalize (au_states A).
      induction l as [|x l IH]; cbn [find_state]; [discriminate|].
      destruct (N.eqb (a_id x) id); [intros E; inversion E; now left|]. intros E. right. auto.
    Qed.

    Lemma match_keys_closed s : In s (au_states A) -> closed (match_keys s).
    Proof.
      intros Hs k Hk r Hr. unfold match_keys in *. apply in_flat_map in Hk as [pk [Hpk Hkk]].
      apply in_flat_map. exists pk. split; [exact Hpk|].
      exact (po_closed _ (Hmatch s pk Hs Hpk) k Hkk r Hr).
    Qed.

    (** the backward pass keeps every scope closed under prerequisites *)
    Lemma backward_closed : forall order acc bw,
      (forall id l, In (id, l) acc -> closed l) ->
      backward_scopes D A order acc = Ok bw -> forall id l, In (id, l) bw -> closed l.
    Proof.
      induction order as [|n order IH]; intros acc bw Hacc E; cbn [backward_scopes] in E.
      - inversion E; subst. exact Hacc.
      - destruct (get_state A n) as [s| |] eqn:G; cbn [rbind] in E; try discriminate.
        destruct (rmapM _ (a_out s)) as [cs| |] eqn:R; cbn [rbind] in E; try discriminate.
        refine (IH _ bw _ E). intros id l [Ein|Hin]; [|eauto].
        inversion Ein; subst. clear Ein.
        assert (Hc : closed (concat cs)).
        { apply closed_concat. intros l Hl. destruct (rmapM_in' _ _ _ _ R Hl) as [e [_ Fx]].
          destruct (lookup_scope acc (e_target e)) as [child| |] eqn:L; cbn [rbind] in Fx; try discriminate.
          destruct (get_state A (e_target e)) as [cst| |] eqn:G2; cbn [rbind] in Fx; try discriminate.
          inversion Fx; subst. apply closed_app.
          - apply lookup_in in L. eauto.
          - apply match_keys_closed. eapply get_state_in'; eauto. }
        intros k Hk r Hr. apply (proj2 (uniq_iff _ _)). apply (proj1 (uniq_iff _ _)) in Hk. exact (Hc k Hk r Hr).
    Qed.

    (** ** populate_scopes *)
    Theorem populate_scopes_ok fuel order sc :
      populate_scopes D fuel A order = Ok sc ->
      Forall2 (fun (s : astate K P) (entry : N * list K) =>
                 fst entry = a_id s
                 /\ po (snd entry)
                 /\ exists cts, cons_transitions s = Ok cts
                      /\ forall c t, In (c, t) cts -> incl (cargs c) (snd entry))
              (au_states A) sc.
    Proof.
      unfold populate_scopes. intros E.
      destruct (forward_scopes D fuel A order []) as [fw| |] eqn:Ef; cbn [rbind] in E; try discriminate.
      destruct (backward_scopes D A (rev order) []) as [bw| |] eqn:Eb; cbn [rbind] in E; try discriminate.
      pose proof (forward_po fuel A order [] fw (fun _ _ (F : In _ []) => match F with end) Ef) as Hfw.
      pose proof (backward_closed (rev order) [] bw (fun _ _ (F : In _ []) => match F with end) Eb) as Hbw.
      revert sc E. generalize (au_states A). induction l as [|s l IH]; intros sc E; cbn [rmapM] in E.
      - inversion E; subst. constructor.
      - destruct (lookup_scope fw (a_id s)) as [f| |] eqn:Lf; cbn [rbind] in E; try discriminate.
        destruct (lookup_scope bw (a_id s)) as [b| |] eqn:Lb; cbn [rbind] in E; try discriminate.
        destruct (state_constraint_args s) as [args| |] eqn:Ea; cbn [rbind] in E; try discriminate.
        destruct (amb_known D fuel args (intersect_vec D f b)) as [ext| |] eqn:Ex; cbn [rbind] in E; try discriminate.
        destruct (rmapM _ l) as [rest| |] eqn:Rl; cbn [rbind] in E; try discriminate.
        inversion E; subst. constructor; [|apply IH; reflexivity].
        cbn [fst snd]. split; [reflexivity|].
        assert (Hs : po (intersect_vec D f b)).
        { apply po_intersect; [eapply Hfw; eapply lookup_in; eauto|eapply Hbw; eapply lookup_in; eauto]. }
        destruct (po_extend fuel _ _ _ Hs Ex) as [Hpo Hincl]. split; [exact Hpo|].
        unfold state_constraint_args in Ea.
        destruct (cons_transitions s) as [cts| |] eqn:Ec; cbn [rbind] in Ea; try discriminate.
        exists cts. split; [reflexivity|]. intros c t Hin k Hk. apply Hincl.
        inversion Ea; subst. apply in_flat_map. exists (c, t). split; [exact Hin|exact Hk].
    Qed.
  End Graph.
  (** ** the keys recorded with a pattern: prerequisite-first, and they include the pattern's
      own required bindings and every key its constraints use *)
  Lemma pattern_keys_loop_ok fuel : forall cs rb l, po rb -> pattern_keys_loop D fuel cs rb = Ok l ->
    po l /\ incl rb l /\ forall c, In c cs -> incl (cargs c) l.
  Proof.
    induction cs as [|c cs IH]; intros rb l Hrb E; cbn [pattern_keys_loop] in E.
    - inversion E; subst. split; [exact Hrb|]. split; [apply incl_refl|]. intros c [].
    - destruct (amb_known D fuel (cargs c) rb) as [ext| |] eqn:Ea; cbn [rbind] in E; try discriminate.
      destruct (po_extend fuel _ _ _ Hrb Ea) as [Hpo Hincl].
      destruct (IH _ _ Hpo E) as [Hl [Hsub Hcs]]. split; [exact Hl|]. split.
      + intros k Hk. apply Hsub. apply in_or_app. now left.
      + intros c' [<-|Hc']; [|auto]. intros k Hk. apply Hsub. now apply Hincl.
  Qed.

  Theorem pattern_keys_ok fuel extra cs l : pattern_keys D fuel extra cs = Ok l ->
    po l /\ incl extra l /\ forall c, In c cs -> incl (cargs c) l.
  Proof.
    unfold pattern_keys. intros E.
    destruct (amb_known D fuel extra []) as [rb0| |] eqn:E0; cbn [rbind] in E; try discriminate.
    destruct (po_extend fuel _ _ _ po_nil E0) as [Hpo Hincl]. cbn [app] in Hpo, Hincl.
    destruct (pattern_keys_loop_ok fuel cs rb0 l Hpo E) as [Hl [Hsub Hcs]].
    split; [exact Hl|]. split; [|exact Hcs]. intros k Hk. apply Hsub. now apply Hincl.
  Qed.

  (** an automaton whose recorded key lists have the elements add_pattern computes: every
      recorded list contains the pattern's own required bindings and every key of its
      constraints, and nothing that add_pattern does not compute *)
  Lemma match_keys_cover fuel (A : automaton K P) pats : match_key_mismatches D fuel A pats = [] ->
    forall s pk, In s (au_states A) -> In pk (a_matches s) ->
      exists extra cs l, nth_error pats (N.to_nat (fst pk)) = Some (Some (extra, cs))
        /\ pattern_keys D fuel extra cs = Ok l
        /\ incl l (snd pk) /\ incl (snd pk) l
        /\ incl extra (snd pk) /\ forall c, In c cs -> incl (cargs c) (snd pk).
  Proof.
    unfold match_key_mismatches. intros E s pk Hs Hpk.
    match type of E with ?t = [] => assert (Hall : forall x, ~ In x t) by (intros x Hx; rewrite E in Hx; exact Hx) end.
    assert (Hbad : forall x, In x (match nth_error pats (N.to_nat (fst pk)) with
        | Some (Some (extra, cs)) =>
            match pattern_keys D fuel extra cs with
            | Ok l => if same_keys D l (snd pk) then [] else [(a_id s, fst pk)]
            | _ => [(a_id s, fst pk)]
            end
        | _ => [(a_id s, fst pk)]
        end) -> False).
    { intros x Hx. apply (Hall x). apply in_flat_map. exists s. split; [exact Hs|]. apply in_flat_map. exists pk.
      split; [exact Hpk|exact Hx]. }
    destruct (nth_error pats (N.to_nat (fst pk))) as [[[extra cs]|]|]; try (exfalso; apply (Hbad (a_id s, fst pk)); now left).
    destruct (pattern_keys D fuel extra cs) as [l| |] eqn:Ep; try (exfalso; apply (Hbad (a_id s, fst pk)); now left).
    destruct (same_keys D l (snd pk)) eqn:El; [|exfalso; apply (Hbad (a_id s, fst pk)); now left].
    unfold same_keys in El. apply andb_true_iff in El as [E1 E3].
    apply (inclb_incl (keqb D) keq) in E1. apply (inclb_incl (keqb D) keq) in E3.
    destruct (pattern_keys_ok fuel extra cs l Ep) as [_ [Hex Hcs]].
    exists extra, cs, l. split; [reflexivity|]. split; [exact Ep|]. split; [exact E1|]. split; [exact E3|].
    split; [intros k Hk; apply E1; now apply Hex|]. intros c Hc k Hk. apply E1. exact (Hcs c Hc k Hk).
  Qed.

  (** ** the recorded keys are the keys the one-pattern matcher asks for (as sets): the
      pattern's own required bindings, the arguments of its constraints, and their transitive
      prerequisites — [pattern_keys] computes them constraint by constraint, [requested]
      (single_pattern.rs) in one call of all_missing_bindings *)
  Notation kn known := (fun x => In x known).

  Lemma closure_through_closed (rb : list K) key x : closed rb ->
    closure (req D) (kn []) key x -> In x rb \/ closure (req D) (kn rb) key x.
  Proof.
    intros Hcl C. induction C as [_|k r C IH Hr _].
    - destruct (memb (keqb D) key rb) eqn:E; [left; now apply mem_in|right; constructor; now apply mem_nin].
    - destruct IH as [Hk|Ck]; [left; exact (Hcl k Hk r Hr)|].
      destruct (memb (keqb D) r rb) eqn:E; [left; now apply mem_in|right].
      eapply cl_step; eauto. now apply mem_nin.
  Qed.

  Lemma pattern_keys_loop_set fuel : forall cs rb l keys0, po rb ->
    (forall x, In x rb <-> closure_list (req D) (kn []) keys0 x) ->
    pattern_keys_loop D fuel cs rb = Ok l ->
    forall x, In x l <-> closure_list (req D) (kn []) (keys0 ++ flat_map cargs cs) x.
  Proof.
    induction cs as [|c cs IH]; intros rb l keys0 Hrb Hset E; cbn [pattern_keys_loop] in E.
    - inversion E; subst. cbn [flat_map]. rewrite app_nil_r. exact Hset.
    - destruct (amb_known D fuel (cargs c) rb) as [ext| |] eqn:Ea; cbn [rbind] in E; try discriminate.
      destruct (po_extend fuel _ _ _ Hrb Ea) as [Hpo _].
      unfold amb_known in Ea.
      destruct (all_missing_ok (keqb D) (req D) keq fuel (cargs c) rb ext Hacyc Ea) as [_ [Hext _]].
      cbn [flat_map]. rewrite app_assoc.
      apply (IH (rb ++ ext) l (keys0 ++ cargs c) Hpo); [|exact E].
      intros x. rewrite in_app_iff, Hset, Hext. split.
      + intros [[key [Hk C]]|[key [Hk C]]].
        * exists key. split; [apply in_or_app; now left|exact C].
        * exists key. split; [apply in_or_app; now right|].
          eapply (closure_mono (req D)); [|exact C]. intros y [].
      + intros [key [Hk C]]. apply in_app_or in Hk as [Hk|Hk]; [left; exists key; auto|].
        destruct (closure_through_closed rb key x (po_closed rb Hrb) C) as [Hin|C'].
        * left. now apply Hset.
        * right. exists key. auto.
  Qed.

  Theorem pattern_keys_set fuel extra cs l : pattern_keys D fuel extra cs = Ok l ->
    forall x, In x l <-> closure_list (req D) (kn []) (extra ++ flat_map cargs cs) x.
  Proof.
    unfold pattern_keys. intros E.
    destruct (amb_known D fuel extra []) as [rb0| |] eqn:E0; cbn [rbind] in E; try discriminate.
    destruct (po_extend fuel _ _ _ po_nil E0) as [Hpo _]. cbn [app] in Hpo.
    unfold amb_known in E0.
    destruct (all_missing_ok (keqb D) (req D) keq fuel extra [] rb0 Hacyc E0) as [_ [Hset _]].
    exact (pattern_keys_loop_set fuel cs rb0 l extra Hpo Hset E).
  Qed.

  Corollary pattern_keys_same_as_requested fuel fuel' extra (cs : list C) l l' :
    pattern_keys D fuel extra cs = Ok l ->
    all_missing_bindings (keqb D) (req D) fuel' (extra ++ flat_map cargs cs) [] = Ok l' ->
    forall x, In x l <-> In x l'.
  Proof.
    intros E E' x. rewrite (pattern_keys_set fuel extra cs l E x).
    destruct (all_missing_ok (keqb D) (req D) keq fuel' _ [] l' Hacyc E') as [_ [Hset _]].
    symmetry. apply Hset.
  Qed.
  (** ** from the tie to the dump: when the recomputed scopes equal the recorded ones as sets
      ([scope_mismatches] empty, the case field [scopes ()]), the recorded scope of every
      state contains the arguments of the constraints in its constraint order — the covering
      clause of C09 for the real automaton, by the theorem about the algorithm *)
  Lemma lookup_of_forall2 (R : astate K P -> N * list K -> Prop) :
    forall (sts : list (astate K P)) (sc : list (N * list K)),
      Forall2 (fun s e => fst e = a_id s /\ R s e) sts sc ->
      NoDup (map (@a_id K P) sts) ->
      forall s, In s sts -> exists l, lookup_scope sc (a_id s) = Ok l /\ R s (a_id s, l).
  Proof.
    induction 1 as [|s0 e0 sts sc [Hid HR] HF IH]; intros Hnd s Hs; [destruct Hs|].
    cbn [map] in Hnd. inversion Hnd as [|? ? Hni Hnd']; subst.
    destruct e0 as [i l0]. cbn [fst] in Hid. subst i. cbn [lookup_scope].
    destruct Hs as [<-|Hs].
    - rewrite N.eqb_refl. exists l0. split; [reflexivity|exact HR].
    - destruct (N.eqb_spec (a_id s0) (a_id s)) as [E|_].
      + exfalso. apply Hni. rewrite E. now apply in_map.
      + exact (IH Hnd' s Hs).
  Qed.

  Theorem scopes_tie_covers fuel (A : automaton K P) order sc :
    (forall s pk, In s (au_states A) -> In pk (a_matches s) -> po (snd pk)) ->
    NoDup (map (@a_id K P) (au_states A)) ->
    populate_scopes D fuel A order = Ok sc ->
    scope_mismatches D A sc = [] ->
    forall s cts c t, In s (au_states A) -> cons_transitions s = Ok cts -> In (c, t) cts ->
      incl (cargs c) (a_scope s).
  Proof.
    intros Hm Hnd E Emis s cts c t Hs Ec Hct.
    pose proof (populate_scopes_ok A Hm fuel order sc E) as HF.
    destruct (lookup_of_forall2
                (fun s e => po (snd e) /\ exists cts, cons_transitions s = Ok cts
                                          /\ forall c t, In (c, t) cts -> incl (cargs c) (snd e))
                (au_states A) sc HF Hnd s Hs) as [l [Hl [_ [cts' [Ec' Hcov]]]]].
    cbn [snd] in Hcov. rewrite Ec in Ec'. inversion Ec'; subst cts'.
    (* the recorded scope has the same elements *)
    assert (Hsame : same_keys D l (a_scope s) = true).
    { unfold scope_mismatches in Emis.
      destruct (same_keys D l (a_scope s)) eqn:Es; [reflexivity|]. exfalso.
      assert (Hin : In (a_id s) (flat_map (fun s : astate K P =>
                match lookup_scope sc (a_id s) with
                | Ok l => if same_keys D l (a_scope s) then [] else [a_id s]
                | _ => [a_id s]
                end) (au_states A))).
      { apply in_flat_map. exists s. split; [exact Hs|]. rewrite Hl, Es. now left. }
      rewrite Emis in Hin. destruct Hin. }
    unfold same_keys in Hsame. apply andb_true_iff in Hsame as [H1 _].
    apply (inclb_incl (keqb D) keq) in H1.
    intros k Hk. apply H1. exact (Hcov c t Hct k Hk).
  Qed.
End ScopesProofs.
