(** C02, port graphs, run level, where it holds: on a well-formed automaton all of
    whose keys are keys of one good pattern (the pattern compiled alone, or
    together with patterns over the same keys), an embedding of that pattern
    whose constraints drive the abstract semantics into an accepting state (the
    completeness certificate) is reported by the breadth-first run, with every
    recorded key bound to the image of its node.  No foreign key can then be
    bound to a value that does not come from the embedding, which is what goes
    wrong in the known class D10. *)
From PM Require Import Model.Prelude Model.Domain Model.Constraint Model.BindAll Model.BindMaps Model.Automaton Model.Traversal
  Model.DomString Model.DomPGKeys Model.DomPG Spec.Extends Cert.WfCheck Cert.WinCheck
  Proofs.BindAllProofs Proofs.BindMapProofs Proofs.RunSound Proofs.RunTrace Proofs.WfSound Proofs.ToposortProofs
  Proofs.PGTreeProofs Proofs.PGLawful Proofs.PGComplete Proofs.PGEmbedComplete Proofs.StringRun Proofs.MatrixRun.
Local Open Scope N_scope.

Section PGRunComplete.
  Variable H : pghost.
  Variable f : N -> N.
  Variable nk : list (N * pgkey).
  Variable root : N.
  Hypothesis Hkd : NoDup (map snd nk).
  Hypothesis Hroot : In (root, PathRoot 0) nk.
  Hypothesis Hsingle : forall u k, In (u, k) nk ->
    match k with PathRoot i => i = 0 | AlongPath r _ _ => r = 0 end.
  Hypothesis Hlive : In (f root) (live_nodes H).
  Hypothesis Hwalk : forall u p len, In (u, AlongPath 0 p len) nk ->
    nth_error (walk_nodes H (f root) p) (N.to_nat len) = Some (f u).

  Let mstar := bind_of f nk.
  Let v := pgval H mstar.
  Definition inkeys' (k : pgkey) : Prop := In k (map snd nk).

  (** [m] follows the embedding on the keys of KS *)
  Definition goodon (KS : list pgkey) (m : pgmap) : Prop :=
    forall k val, In k KS -> pgget m k = Some val -> pgget mstar k = Some val.

  Lemma mstar_key' k : inkeys' k -> exists u, In (u, k) nk /\ pgget mstar k = Some (f u).
  Proof.
    intros Hk. apply in_map_iff in Hk as [[u k'] [Ek Hin]]. cbn [snd] in Ek. subst k'.
    exists u. split; [exact Hin|]. now apply pgget_bind_of.
  Qed.

  Lemma opts_offer' KS m k : goodon KS m -> (forall r, In r (pg_req k) -> In r KS) ->
    inkeys' k -> pgget m k = None -> (forall r, In r (pg_req k) -> pgget m r <> None) ->
    exists vs val, pg_opts H k m = Ok vs /\ In val vs /\ pgget mstar k = Some val.
  Proof.
    intros Hg Hcl Hk Hgk Hreq. destruct (mstar_key' k Hk) as [u [Hin Em]]. pose proof (Hsingle u k Hin) as Hsg.
    unfold pg_opts. rewrite Hgk. destruct k as [i|r0 p l].
    - subst i. cbn. exists (live_nodes H), (f root). split; [reflexivity|]. split; [exact Hlive|].
      unfold mstar. now apply pgget_bind_of.
    - subst r0. destruct (pgget m (PathRoot 0)) as [rv|] eqn:Er.
      + assert (rv = f root).
        { apply (Hg (PathRoot 0)) in Er; [|apply Hcl; cbn; now left].
          unfold mstar in Er. rewrite (pgget_bind_of f nk root (PathRoot 0) Hkd Hroot) in Er. now inversion Er. }
        subst rv. rewrite (Hwalk u p l Hin). exists [f u], (f u). split; [reflexivity|]. split; [now left|exact Em].
      + exfalso. apply (Hreq (PathRoot 0)); [cbn; now left|exact Er].
  Qed.

  Lemma goodon_insert KS m k val : goodon KS m -> pgget mstar k = Some val -> goodon KS (ainsert pgkey_eqb m k val).
  Proof.
    intros Hg Ev k' v' Hk' Hgk. unfold pgget in Hgk. destruct (pgkey_eqb k' k) eqn:Ek.
    - apply pgkey_eqb_eq in Ek. subst k'. rewrite (aget_ainsert_same pgkey_eqb pgkey_eqb_eq) in Hgk. inversion Hgk; subst. exact Ev.
    - rewrite (aget_ainsert_other pgkey_eqb pgkey_eqb_eq) in Hgk; [now apply (Hg k')|]. intros ->.
      rewrite (proj2 (pgkey_eqb_eq k k) eq_refl) in Ek. discriminate.
  Qed.

  (** binding a list of pattern keys, prerequisites first (each prerequisite earlier
      in the list or already bound): one candidate follows the embedding *)
  Lemma ext_keys' KS inc : (forall k r, In k KS -> In r (pg_req k) -> In r KS) ->
    forall keys m, goodon KS m -> incl keys KS -> (forall k, In k keys -> inkeys' k) ->
    (forall l1 k l2, keys = l1 ++ k :: l2 -> forall r, In r (pg_req k) -> In r l1 \/ pgget m r <> None) ->
    exists m', ext_rel pg_dom H inc keys m m' /\ goodon KS m'
               /\ (forall k, In k keys -> pgget m' k <> None)
               /\ (forall k val, pgget m k = Some val -> pgget m' k = Some val)
               /\ (forall k, pgget m' k <> None -> pgget m k <> None \/ In k keys).
  Proof.
    intros Hcl. induction keys as [|k ks IH]; intros m Hg Hinc Hin Hpre.
    - exists m. split; [constructor|]. split; [exact Hg|]. split; [intros k []|]. split; [auto|auto].
    - assert (Hk : inkeys' k) by (apply Hin; now left).
      assert (HkK : In k KS) by (apply Hinc; now left).
      destruct (pgget m k) as [v0|] eqn:Hgk.
      + destruct (IH m Hg (fun x Hx => Hinc x (or_intror Hx)) (fun x Hx => Hin x (or_intror Hx))) as [m' [He [Hg' [Hb [Hm Hdom]]]]].
        { intros l1 x l2 E r Hr. destruct (Hpre (k :: l1) x l2 ltac:(now rewrite E) r Hr) as [[<-|Hl]|Hbd]; [right; congruence|now left|now right]. }
        exists m'. split; [eapply ext_bound; eauto|]. split; [exact Hg'|]. split; [|split; [exact Hm|]].
        * intros x [<-|Hx]; [rewrite (Hm _ _ Hgk); discriminate|now apply Hb].
        * intros x Hx. destruct (Hdom x Hx) as [Hd|Hd]; [now left|right; now right].
      + destruct (opts_offer' KS m k Hg (fun r Hr => Hcl k r HkK Hr) Hk Hgk) as [vs [val [Ho [Hv Em]]]].
        { intros r Hr. destruct (Hpre [] k ks eq_refl r Hr) as [[]|Hbd]. exact Hbd. }
        set (m1 := ainsert pgkey_eqb m k val).
        assert (Hb1 : mbind pg_dom m k val = Some m1).
        { cbn [mbind pg_dom]. unfold abind. change (aget pgkey_eqb m k) with (pgget m k). now rewrite Hgk. }
        assert (Hg1 : pgget m1 k = Some val) by (unfold pgget, m1; apply (aget_ainsert_same pgkey_eqb pgkey_eqb_eq)).
        assert (Hoth : forall k', k' <> k -> pgget m1 k' = pgget m k').
        { intros k' Hne. unfold pgget, m1. now apply (aget_ainsert_other pgkey_eqb pgkey_eqb_eq). }
        assert (Hmono : forall k' v', pgget m k' = Some v' -> pgget m1 k' = Some v').
        { intros k' v' Hg'. rewrite Hoth; [exact Hg'|]. intros ->. congruence. }
        destruct (IH m1 (goodon_insert KS m k val Hg Em) (fun x Hx => Hinc x (or_intror Hx)) (fun x Hx => Hin x (or_intror Hx)))
          as [m' [He [Hg' [Hb [Hm Hdom]]]]].
        { intros l1 x l2 E r Hr. destruct (Hpre (k :: l1) x l2 ltac:(now rewrite E) r Hr) as [[<-|Hl]|Hbd]; [right; congruence|now left|].
          right. destruct (pgget m r) as [vr|] eqn:Er; [|contradiction]. rewrite (Hmono _ _ Er). discriminate. }
        exists m'. split; [eapply ext_bind; eauto|]. split; [exact Hg'|]. split; [|split].
        * intros x [<-|Hx]; [rewrite (Hm _ _ Hg1); discriminate|now apply Hb].
        * intros k' v' Hg0. apply Hm. now apply Hmono.
        * intros x Hx. destruct (Hdom x Hx) as [Hd|Hd]; [|right; now right].
          destruct (pgkey_eqb x k) eqn:Exk; [apply pgkey_eqb_eq in Exk; subst x; right; now left|].
          left. rewrite <- Hoth; [exact Hd|]. intros ->. rewrite (proj2 (pgkey_eqb_eq k k) eq_refl) in Exk. discriminate.
  Qed.

  (** a prerequisites-first list is closed under prerequisites *)
  Lemma prereq_closed ks : prereq_ordered pg_dom ks -> forall k r, In k ks -> In r (pg_req k) -> In r ks.
  Proof.
    intros [_ Ho] k r Hk Hr. apply in_split in Hk as [l1 [l2 E]]. specialize (Ho l1 k l2 E r Hr).
    rewrite E. apply in_or_app. now left.
  Qed.

  (** under a map that follows the embedding on the arguments of a constraint and
      binds them all, the constraint has its abstract truth value *)
  Lemma resolve_good m args : goodon args m -> (forall k, In k args -> pgget m k <> None) ->
    resolve_args pg_dom m args = resolve_args pg_dom mstar args.
  Proof.
    induction args as [|k ks IH]; intros Hg Hb; [reflexivity|]. cbn [resolve_args].
    change (mget pg_dom m k) with (pgget m k). change (mget pg_dom mstar k) with (pgget mstar k).
    destruct (pgget m k) as [val|] eqn:Hgk; [|exfalso; apply (Hb k); [now left|exact Hgk]].
    rewrite (Hg k val (or_introl eq_refl) Hgk). rewrite IH; [reflexivity| |].
    - intros k' v' Hk'. apply Hg. now right.
    - intros x Hx. apply Hb. now right.
  Qed.

  Lemma sat_good m c b : goodon (cargs c) m -> (forall k, In k (cargs c) -> pgget m k <> None) ->
    sat_or_false pg_dom H c m = Ok b -> b = v c.
  Proof.
    intros Hg Hb. unfold sat_or_false, is_satisfied, is_satisfied_calls, rmap, v, pgval.
    rewrite (resolve_good m (cargs c) Hg Hb).
    destruct (resolve_args pg_dom mstar (cargs c)) as [k|vs] eqn:R.
    - cbn [rbind fst]. intros E. inversion E. reflexivity.
    - cbn [check pg_dom]. destruct (pg_check H (cpred c) vs) as [b0| |]; cbn [rbind fst]; try discriminate.
      intros E. inversion E. destruct b; reflexivity.
  Qed.

  Lemma filter_sat_elem m l r c t :
    filter_sat pg_dom H m l = Ok r -> In (c, t) l ->
    exists b, sat_or_false pg_dom H c m = Ok b /\ (b = true -> In t r).
  Proof.
    revert r. induction l as [|[c0 t0] l IH]; intros r R Hin; [destruct Hin|]. cbn in R.
    destruct (sat_or_false pg_dom H c0 m) as [b0| |] eqn:S0; cbn in R; try discriminate.
    destruct (filter_sat pg_dom H m l) as [r'| |] eqn:R'; cbn in R; try discriminate.
    inversion R; subst. destruct Hin as [Eq|Hin].
    - inversion Eq; subst. exists b0. split; [exact S0|]. intros ->. now left.
    - destruct (IH r' eq_refl Hin) as [b [Sb Hb]]. exists b. split; [exact Sb|]. intros E. destruct b0; [right|]; auto.
  Qed.

  Definition subm (m : pgmap) : Prop := forall k val, pgget m k = Some val -> pgget mstar k = Some val.

  Lemma aretain_pgget ks (m : pgmap) k :
    pgget (aretain pgkey_eqb ks m) k = if memb pgkey_eqb k ks then pgget m k else None.
  Proof. unfold pgget. apply (aretain_get pgkey_eqb pgkey_eqb_eq). Qed.

  (** ** one step of the traversal from an item that follows the embedding on the scope *)
  Section Step.
    Variable st : astate pgkey pgpred.
    Variable cts : list (pgconstraint * N).
    Hypothesis Hscope : prereq_ordered pg_dom (a_scope st).
    Hypothesis Hsk : forall k, In k (a_scope st) -> inkeys' k.
    Hypothesis Hcts : cons_transitions st = Ok cts.
    Hypothesis Hcov : forall c t, In (c, t) cts -> incl (cargs c) (a_scope st).

    Lemma pg_step_candidate m ys :
      goodon (a_scope st) m -> next_legal_states pg_dom H st m = Ok ys ->
      exists b, subm b /\ (forall k, In k (a_scope st) -> pgget b k <> None)
        /\ exists fired fail,
             filter_sat pg_dom H b cts = Ok fired
             /\ (if negb (a_det st) || match fired with [] => true | _ => false end
                 then fail_next_state st else Ok None) = Ok fail
             /\ (forall t, In t fired -> In (t, b) ys)
             /\ (forall t, fail = Some t -> In (t, b) ys).
    Proof.
      intros Hg N. unfold next_legal_states in N.
      destruct (bind_all pg_dom H m (a_scope st) true) as [cands| |] eqn:B; cbn [rbind] in N; try discriminate.
      destruct (rmapM (mretain pg_dom (a_scope st)) cands) as [cands'| |] eqn:R; cbn [rbind] in N; try discriminate.
      rewrite Hcts in N. cbn [rbind] in N.
      destruct (ext_keys' (a_scope st) true (prereq_closed _ Hscope) (a_scope st) m Hg (fun x Hx => Hx) Hsk)
        as [m' [He [Hg' [Hb [Hmono Hdom]]]]].
      { intros l1 k l2 E r Hr. left. destruct Hscope as [_ Ho]. exact (Ho l1 k l2 E r Hr). }
      assert (Hcin : In m' cands).
      { apply bind_all_eq_spec in B. apply (extend_rel pg_dom H true (a_scope st) m cands m' B). exact He. }
      destruct (rmapM_fwd _ _ _ _ R Hcin) as [b [Rb Hbin]]. cbn [mretain pg_dom] in Rb. inversion Rb as [Eb]. clear Rb.
      assert (Hsub : subm b).
      { intros k val Hgk. rewrite <- Eb, aretain_pgget in Hgk. destruct (memb pgkey_eqb k (a_scope st)) eqn:Em; [|discriminate].
        apply (memb_in pgkey_eqb pgkey_eqb_eq) in Em. now apply (Hg' k val Em). }
      assert (Hbound : forall k, In k (a_scope st) -> pgget b k <> None).
      { intros k Hk. rewrite <- Eb, aretain_pgget. rewrite (proj2 (memb_in pgkey_eqb pgkey_eqb_eq k (a_scope st)) Hk). now apply Hb. }
      exists b. split; [exact Hsub|]. split; [exact Hbound|].
      assert (Hfb : exists zs, (let* fired := filter_sat pg_dom H b cts in
                                let needs_fail := negb (a_det st) || match fired with [] => true | _ => false end in
                                let* fail := if needs_fail then fail_next_state st else Ok None in
                                Ok (map (fun t => (t, b)) fired ++ match fail with Some t => [(t, b)] | None => [] end)) = Ok zs
                               /\ forall y, In y zs -> In y ys).
      { clear - N Hbin. revert ys N. induction cands' as [|c0 l IHl]; intros ys N; [destruct Hbin|].
        cbn [rflatM] in N.
        match type of N with rbind ?e _ = _ => destruct e as [z0| |] eqn:E0 end; cbn [rbind] in N; try discriminate.
        destruct (rflatM _ l) as [zs'| |] eqn:E1; cbn [rbind] in N; try discriminate.
        inversion N; subst. destruct Hbin as [->|Hbin].
        - exists z0. split; [exact E0|]. intros y Hy. apply in_or_app. now left.
        - destruct (IHl Hbin zs' eq_refl) as [zs [Hz1 Hz2]]. exists zs. split; auto.
          intros y Hy. apply in_or_app. right. auto. }
      destruct Hfb as [zs [Hz Hsubl]].
      destruct (filter_sat pg_dom H b cts) as [fired| |] eqn:FS; cbn [rbind] in Hz; try discriminate.
      destruct (if negb (a_det st) || match fired with [] => true | _ => false end then fail_next_state st else Ok None)
        as [fail| |] eqn:FN; cbn [rbind] in Hz; try discriminate.
      inversion Hz; subst zs. exists fired, fail. split; auto. split; auto. split.
      + intros t Ht. apply Hsubl. apply in_or_app. left. apply in_map_iff. exists t. auto.
      + intros t ->. apply Hsubl. apply in_or_app. right. now left.
    Qed.

    Lemma sat_is_v b c t b0 : subm b -> (forall k, In k (a_scope st) -> pgget b k <> None) ->
      In (c, t) cts -> sat_or_false pg_dom H c b = Ok b0 -> b0 = v c.
    Proof.
      intros Hs Hb Hin S. apply (sat_good b c b0); [|intros k Hk; apply Hb; eapply Hcov; eauto|exact S].
      intros k val _ Hgk. now apply Hs.
    Qed.

    Lemma pg_step_cons m ys c t :
      goodon (a_scope st) m -> next_legal_states pg_dom H st m = Ok ys ->
      In (c, t) cts -> v c = true -> exists b, In (t, b) ys /\ subm b.
    Proof.
      intros Hg N Hin Hv. destruct (pg_step_candidate m ys Hg N) as [b [Hs [Hb [fired [fail [FS [FN [Hf Hfail]]]]]]]].
      exists b. split; [|exact Hs]. apply Hf.
      destruct (filter_sat_elem b cts fired c t FS Hin) as [b0 [S0 Hin0]]. apply Hin0.
      rewrite (sat_is_v b c t b0 Hs Hb Hin S0). exact Hv.
    Qed.

    Lemma pg_step_eps m ys t :
      goodon (a_scope st) m -> next_legal_states pg_dom H st m = Ok ys ->
      fail_next_state st = Ok (Some t) ->
      (a_det st = false \/ forallb (fun ct => negb (v (fst ct))) cts = true) ->
      exists b, In (t, b) ys /\ subm b.
    Proof.
      intros Hg N Hfn Hd. destruct (pg_step_candidate m ys Hg N) as [b [Hs [Hb [fired [fail [FS [FN [Hf Hfail]]]]]]]].
      exists b. split; [|exact Hs]. apply Hfail.
      assert (Hneeds : negb (a_det st) || match fired with [] => true | _ => false end = true).
      { destruct Hd as [->|Hall]; [reflexivity|]. apply orb_true_iff. right.
        destruct fired as [|t0 fr]; auto. exfalso.
        destruct (filter_sat_in pg_dom _ _ _ _ t0 FS (or_introl eq_refl)) as [c0 [Hc0 Hs0]].
        rewrite forallb_forall in Hall. specialize (Hall _ Hc0). cbn in Hall. apply negb_true_iff in Hall.
        pose proof (sat_is_v b c0 t0 true Hs Hb Hc0 Hs0) as E. congruence. }
      rewrite Hneeds in FN. rewrite Hfn in FN. now inversion FN.
    Qed.
  End Step.

  (** ** emission at an accepting state *)
  Lemma filter_split {X} (p : X -> bool) : forall l l1 x l2, filter p l = l1 ++ x :: l2 ->
    exists k1 k2, l = k1 ++ x :: k2 /\ l1 = filter p k1 /\ l2 = filter p k2.
  Proof.
    induction l as [|y ys IH]; intros l1 x l2 E; cbn [filter] in E; [destruct l1; discriminate|].
    destruct (p y) eqn:Py.
    - destruct l1 as [|z l1']; cbn [app] in E.
      + inversion E; subst. exists [], ys. cbn. auto.
      + inversion E as [[Ez Et]]. subst z. destruct (IH l1' x l2 Et) as [k1 [k2 [E1 [E2 E3]]]].
        exists (y :: k1), k2. cbn [app filter]. rewrite Py. subst. auto.
    - destruct (IH l1 x l2 E) as [k1 [k2 [E1 [E2 E3]]]]. exists (y :: k1), k2. cbn [app filter]. rewrite Py. subst. auto.
  Qed.

  Lemma pg_emission (st : astate pgkey pgpred) m e pid keys :
    In (pid, keys) (a_matches st) -> prereq_ordered pg_dom keys -> (forall k, In k keys -> inkeys' k) ->
    goodon keys m -> emissions pg_dom H st m = Ok e ->
    exists b, In (pid, b) e /\ forall k, In k keys -> pgget b k <> None /\ pgget b k = pgget mstar k.
  Proof.
    intros Hin Hord Hks Hg Em. unfold emissions in Em.
    assert (Hsub : exists e1,
       (let new_keys := filter (fun k => match mget pg_dom m k with None => true | Some _ => false end) keys in
        let* bs := match new_keys with [] => Ok [m] | _ => bind_all pg_dom H m new_keys false end in
        let* bs' := rmapM (mretain pg_dom keys) bs in
        Ok (map (fun b => (pid, b)) bs')) = Ok e1 /\ forall y, In y e1 -> In y e).
    { clear - Em Hin. revert e Em. induction (a_matches st) as [|pk l IHl]; intros e Em; [destruct Hin|].
      cbn [rflatM] in Em.
      match type of Em with rbind ?x _ = _ => destruct x as [z0| |] eqn:E0 end; cbn [rbind] in Em; try discriminate.
      destruct (rflatM _ l) as [zs'| |] eqn:E1; cbn [rbind] in Em; try discriminate.
      inversion Em; subst. destruct Hin as [->|Hin].
      - exists z0. split; [exact E0|]. intros y Hy. apply in_or_app. now left.
      - destruct (IHl Hin zs' eq_refl) as [e1 [H1 H2]]. exists e1. split; auto.
        intros y Hy. apply in_or_app. right. auto. }
    destruct Hsub as [e1 [He1 Hsub]]. cbn zeta in He1.
    set (unb := fun k : pgkey => match mget pg_dom m k with None => true | Some _ => false end) in He1.
    set (new_keys := filter unb keys) in He1.
    (* the candidate that follows the embedding *)
    destruct (ext_keys' keys false (prereq_closed _ Hord) new_keys m Hg) as [m' [He [Hg' [Hb [Hmono _]]]]].
    { intros x Hx. unfold new_keys in Hx. apply filter_In in Hx. tauto. }
    { intros x Hx. apply Hks. unfold new_keys in Hx. apply filter_In in Hx. tauto. }
    { intros l1 k l2 E r Hr. unfold new_keys in E. destruct (filter_split unb keys l1 k l2 E) as [k1 [k2 [Ek [E1 _]]]].
      destruct Hord as [_ Ho]. pose proof (Ho k1 k k2 Ek r Hr) as Hr1.
      destruct (unb r) eqn:Ur.
      - left. rewrite E1. apply filter_In. auto.
      - right. unfold unb in Ur. change (mget pg_dom m r) with (pgget m r) in Ur. destruct (pgget m r); [discriminate|discriminate]. }
    destruct (match new_keys with [] => Ok [m] | _ => bind_all pg_dom H m new_keys false end) as [bs| |] eqn:B;
      cbn [rbind] in He1; try discriminate.
    destruct (rmapM (mretain pg_dom keys) bs) as [bs'| |] eqn:R; cbn [rbind] in He1; try discriminate.
    inversion He1; subst e1.
    assert (Hin' : In m' bs).
    { destruct new_keys as [|k1 nk1] eqn:Enk.
      - inversion B; subst bs. inversion He; subst. now left.
      - apply bind_all_eq_spec in B. apply (extend_rel pg_dom H false (k1 :: nk1) m bs m' B). exact He. }
    destruct (rmapM_fwd _ _ _ _ R Hin') as [b [Rb Hbin]]. cbn [mretain pg_dom] in Rb. inversion Rb as [Eb]. clear Rb.
    exists b. split; [apply Hsub; apply in_map_iff; exists b; auto|].
    intros k Hk. rewrite <- Eb, aretain_pgget. rewrite (proj2 (memb_in pgkey_eqb pgkey_eqb_eq k keys) Hk).
    assert (Hbk : pgget m' k <> None).
    { destruct (unb k) eqn:Uk.
      - apply Hb. unfold new_keys. apply filter_In. auto.
      - unfold unb in Uk. change (mget pg_dom m k) with (pgget m k) in Uk. destruct (pgget m k) as [val|] eqn:Eg; [|discriminate].
        rewrite (Hmono _ _ Eg). discriminate. }
    split; [exact Hbk|]. destruct (pgget m' k) as [val|] eqn:Eg; [|contradiction]. symmetry. now apply (Hg' k val Hk).
  Qed.

  (** ** from abstract reachability to the expanded items of the run *)
  Section Closure.
    Variable A : automaton pgkey pgpred.
    Variable ids : list N.
    Hypothesis HWF : WF pg_dom A ids.
    (** every key of the automaton is a key of the pattern *)
    Hypothesis Hkeys : forall st k, In st (au_states A) -> In k (useful_keys pg_dom st) -> inkeys' k.
    Variable T : list (N * pgmap).
    Hypothesis Troot : in_keys pg_dom A (au_root A, []) T.
    Hypothesis Tclosed : forall x ys y, In x T -> succ_of pg_dom A H x ys -> In y ys -> in_keys pg_dom A y T.
    Hypothesis Tsucc : forall x, In x T -> exists ys e, succ_of pg_dom A H x ys /\ emit_of pg_dom A H x e.

    Definition good_item (x : N * pgmap) : Prop :=
      forall st, get_state A (fst x) = Ok st -> goodon (useful_keys pg_dom st) (snd x).

    Lemma transfer y0 t b : In y0 T -> same_key pg_dom A y0 (t, b) -> subm b -> fst y0 = t /\ good_item y0.
    Proof.
      intros Hy [Ef V] Hb. split; [exact Ef|]. intros st G k val Hk Hgk.
      specialize (V st G). unfold view in V. cbn [snd] in V.
      pose proof (ext_in_map V k Hk) as E0. change (pgget (snd y0) k = pgget b k) in E0.
      apply Hb. now rewrite <- E0.
    Qed.

    Lemma scope_useful st k : In k (a_scope st) -> In k (useful_keys pg_dom st).
    Proof. intros Hk. unfold useful_keys. apply in_or_app. now left. Qed.

    Lemma reach_item s : areach v A s -> exists x, In x T /\ fst x = s /\ good_item x.
    Proof.
      induction 1 as [|s st cts c t Hr IH G CT Hin Hv|s st cts t Hr IH G CT FN Hd].
      - destruct Troot as [y0 [Hy Hk]]. destruct (transfer y0 _ _ Hy Hk) as [E1 E2]; [intros k val Hg; discriminate|].
        exists y0. auto.
      - destruct IH as [x [Hx [Ex Hg]]]. destruct (Tsucc x Hx) as [ys [e [[st0 [G0 NL]] _]]].
        pose proof G0 as G0'. rewrite Ex in G0'. rewrite G in G0'. inversion G0'; subst st0.
        destruct (get_state_in _ _ _ G) as [Hst _].
        assert (Hcov : forall c t, In (c, t) cts -> incl (cargs c) (a_scope st)).
        { intros c' t' Hin'. destruct (cons_transitions_edge st cts c' t' CT Hin') as [e' [He1 [He2 _]]].
          eapply (wf_scope_covers _ _ _ HWF); eauto. }
        destruct (pg_step_cons st cts (wf_scope_ordered _ _ _ HWF st Hst) (fun k Hk => Hkeys st k Hst (scope_useful st k Hk)) CT Hcov (snd x) ys c t)
          as [b [Hb Hsb]]; auto.
        { intros k val Hk. apply (Hg st G0). now apply scope_useful. }
        destruct (Tclosed x ys (t, b) Hx) as [y0 [Hy Hk]]; auto.
        { exists st. auto. }
        destruct (transfer y0 _ _ Hy Hk Hsb). exists y0. auto.
      - destruct IH as [x [Hx [Ex Hg]]]. destruct (Tsucc x Hx) as [ys [e [[st0 [G0 NL]] _]]].
        pose proof G0 as G0'. rewrite Ex in G0'. rewrite G in G0'. inversion G0'; subst st0.
        destruct (get_state_in _ _ _ G) as [Hst _].
        assert (Hcov : forall c t, In (c, t) cts -> incl (cargs c) (a_scope st)).
        { intros c' t' Hin'. destruct (cons_transitions_edge st cts c' t' CT Hin') as [e' [He1 [He2 _]]].
          eapply (wf_scope_covers _ _ _ HWF); eauto. }
        destruct (pg_step_eps st cts (wf_scope_ordered _ _ _ HWF st Hst) (fun k Hk => Hkeys st k Hst (scope_useful st k Hk)) CT Hcov (snd x) ys t)
          as [b [Hb Hsb]]; auto.
        { intros k val Hk. apply (Hg st G0). now apply scope_useful. }
        destruct (Tclosed x ys (t, b) Hx) as [y0 [Hy Hk]]; auto.
        { exists st. auto. }
        destruct (transfer y0 _ _ Hy Hk Hsb). exists y0. auto.
    Qed.

    Lemma accept_emits p : aaccepts v A p ->
      exists x e st keys b, In x T /\ emit_of pg_dom A H x e /\ In st (au_states A) /\ In (p, keys) (a_matches st)
        /\ In (p, b) e /\ forall k, In k keys -> pgget b k <> None /\ pgget b k = pgget mstar k.
    Proof.
      intros [s [st [Hr [G Hp]]]].
      apply in_map_iff in Hp as [[p' keys] [Ep Hpk]]. cbn in Ep. subst p'.
      destruct (get_state_in _ _ _ G) as [Hst _].
      pose proof (wf_match_ordered _ _ _ HWF st (p, keys) Hst Hpk) as Ho. cbn in Ho.
      destruct (reach_item s Hr) as [x [Hx [Ex Hg]]].
      destruct (Tsucc x Hx) as [ys [e [_ [st0 [G0 EM]]]]].
      pose proof G0 as G0'. rewrite Ex in G0'. rewrite G in G0'. inversion G0'; subst st0.
      assert (Hku : forall k, In k keys -> In k (useful_keys pg_dom st)).
      { intros k Hk. unfold useful_keys. apply in_or_app. right. unfold unique_keys.
        apply (MatrixRun.uniq_in_gen pgkey_eqb pgkey_eqb_eq). apply in_flat_map. exists (p, keys). auto. }
      destruct (pg_emission st (snd x) e p keys Hpk Ho) as [b [Hb Hbk]]; auto.
      - intros k Hk. apply (Hkeys st k Hst). now apply Hku.
      - intros k val Hk. apply (Hg st G0). now apply Hku.
      - exists x, e, st, keys, b. split; [exact Hx|]. split; [exists st; auto|]. auto.
    Qed.
  End Closure.

  Theorem pg_run_reports (A : automaton pgkey pgpred) ids fuel ms p :
    WF pg_dom A ids ->
    (forall st k, In st (au_states A) -> In k (useful_keys pg_dom st) -> inkeys' k) ->
    run pg_dom fuel A H = Ok ms -> aaccepts v A p ->
    exists st keys b, In st (au_states A) /\ In (p, keys) (a_matches st) /\ In (p, b) ms
      /\ forall k, In k keys -> pgget b k <> None /\ pgget b k = pgget mstar k.
  Proof.
    intros HWF Hkeys R Hacc.
    destruct (run_trace pg_dom pg_dom_eq A H fuel ms R) as [T [T1 [T2 [T3 [T4 _]]]]].
    destruct (accept_emits A ids HWF Hkeys T T1 T2 T4 p Hacc) as [x [e [st [keys [b [Hx [He [Hst [Hpk [Hb Hk]]]]]]]]]].
    exists st, keys, b. split; [exact Hst|]. split; [exact Hpk|]. split; [eapply T3; eauto|exact Hk].
  Qed.
End PGRunComplete.
