(** Matrices: on a fully certified automaton the run reports exactly the
    occurrences (soundness C01 + completeness C02); consequences for automata
    built under different heuristics (C04) or from different pattern lists (C06). *)
From PM Require Import Model.Prelude Model.Domain Model.Constraint Model.Automaton Model.Traversal
  Model.DomString Model.DomMatrix Spec.Occ Cert.LabCheck Cert.WfCheck Cert.WinCheck Cert.CharCert
  Proofs.RunSound Proofs.LawfulDomains Proofs.BindMapMatrixProofs Proofs.OccMatrix Proofs.MatrixRun.

Definition m_certified (A : automaton mkey cpredicate) (L : labelling) (rk : list (N * nat)) (ids : list N)
    (pats : list mpattern) (present : list bool) : Prop :=
  lab_ok matrix_dom m_goodb atoms_self A L (map m_cvec pats) = true
  /\ wf_check matrix_dom A rk ids = true
  /\ cert_complete (char_entails mkey_eqb) (char_refutes mkey_eqb) A (map m_cvec pats) present = true
  /\ m_keys_tight A (map m_cvec pats) = true
  /\ m_keys_nn A = true.

Lemma m_run_sound_occ pats A L h fuel ms i p m :
  lab_ok matrix_dom m_goodb atoms_self A L (map m_cvec pats) = true ->
  run matrix_dom fuel A h = Ok ms -> nth_error pats i = Some p ->
  In (N.of_nat i, m) ms -> exists s a b, m = MBound s a b /\ occ_matrix p h s.
Proof.
  intros C R Hp Hin.
  destruct (run_sound matrix_dom matrix_dom_eq m_inv m_goodb atoms_self matrix_lawful
              (fun h0 c m0 => atoms_self_sound matrix_dom h0 c m0)
              (fun h0 c m0 => atoms_self_complete matrix_dom h0 c m0)
              A L _ C h fuel ms R (N.of_nat i, m) Hin) as [Iv [cp [Hn Hall]]].
  cbn [fst snd] in Iv, Hn, Hall. rewrite Nnat.Nat2N.id, nth_error_map, Hp in Hn. inversion Hn; subst cp.
  apply m_constraints_sound; auto.
Qed.

Theorem m_run_exact A L rk ids pats present h fuel ms i p s :
  m_certified A L rk ids pats present ->
  run matrix_dom fuel A h = Ok ms ->
  nth_error pats i = Some p -> nth_error present i = Some true ->
  ((exists a b, In (N.of_nat i, MBound s a b) ms) <-> occ_matrix p h s).
Proof.
  intros [C [W [CC [T NN]]]] R Hp Hpr. split.
  - intros [a [b Hin]]. destruct (m_run_sound_occ pats A L h fuel ms i p _ C R Hp Hin) as [s' [a' [b' [E O]]]].
    inversion E; subst. exact O.
  - intros O. eapply m_complete; eauto.
Qed.

Theorem m_certified_agree A1 L1 rk1 ids1 pats1 pr1 A2 L2 rk2 ids2 pats2 pr2 h f1 f2 ms1 ms2 i j p s :
  m_certified A1 L1 rk1 ids1 pats1 pr1 -> m_certified A2 L2 rk2 ids2 pats2 pr2 ->
  run matrix_dom f1 A1 h = Ok ms1 -> run matrix_dom f2 A2 h = Ok ms2 ->
  nth_error pats1 i = Some p -> nth_error pr1 i = Some true ->
  nth_error pats2 j = Some p -> nth_error pr2 j = Some true ->
  ((exists a b, In (N.of_nat i, MBound s a b) ms1) <-> (exists a b, In (N.of_nat j, MBound s a b) ms2)).
Proof.
  intros C1 C2 R1 R2 P1 Q1 P2 Q2.
  rewrite (m_run_exact A1 L1 rk1 ids1 pats1 pr1 h f1 ms1 i p s C1 R1 P1 Q1).
  rewrite (m_run_exact A2 L2 rk2 ids2 pats2 pr2 h f2 ms2 j p s C2 R2 P2 Q2). tauto.
Qed.
