(** C05 / C02, port graphs, the class outside the known findings: for a pattern
    all of whose keys hang off the single index root Root(0), and a host in which
    walking from the image of the root reaches the image of every keyed node at
    the recorded distance, the single-pattern matcher reports the embedding.
    (The walk hypothesis is derived from a per-pattern validation and the fact
    that walks commute with embeddings in Proofs/PGWalkEmbed.v.) *)
From PM Require Import Model.Prelude Model.Domain Model.Constraint Model.BindAll Model.Scheme Model.Matchers Model.BindMaps
  Model.DomString Model.DomPGKeys Model.DomPG Spec.TopoSpec Spec.Extends
  Proofs.SchemeProofs Proofs.BindAllProofs Proofs.BindMapProofs Proofs.PGTreeProofs Proofs.PGLawful Proofs.PGEmbed
  Proofs.PGComplete Proofs.PGEmbedComplete Proofs.SingleComplete.
Local Open Scope N_scope.

Lemma filter_satb_keeps {K V M H P} (D : DomOps K V M H P) h c : forall cands ok b,
  filter_satb D h c cands = Ok ok -> In b cands -> sat_or_false D h c b = Ok true -> In b ok.
Proof.
  induction cands as [|m ms IH]; intros ok b F Hin Hs; [destruct Hin|].
  cbn [filter_satb] in F. destruct (sat_or_false D h c m) as [bm| |] eqn:Sm; cbn [rbind] in F; try discriminate.
  destruct (filter_satb D h c ms) as [r| |] eqn:Fr; cbn [rbind] in F; try discriminate.
  inversion F; subst ok. destruct Hin as [->|Hin].
  - rewrite Hs in Sm. inversion Sm; subst bm. now left.
  - specialize (IH r b eq_refl Hin Hs). destruct bm; [now right|exact IH].
Qed.

Section PGSingleComplete.
  Variable H : pghost.
  Variable f : N -> N.
  Variable nk : list (N * pgkey).
  Variable root : N.
  Variable cs : list pgconstraint.

  Hypothesis Hkd : NoDup (map snd nk).
  Hypothesis Hroot : In (root, PathRoot 0) nk.
  (** every key hangs off the single index root *)
  Hypothesis Hsingle : forall u k, In (u, k) nk ->
    match k with PathRoot i => i = 0 | AlongPath r _ _ => r = 0 end.
  Hypothesis Hlive : In (f root) (live_nodes H).
  (** the host walk from the image of the root reaches the image of each keyed node *)
  Hypothesis Hwalk : forall u p len, In (u, AlongPath 0 p len) nk ->
    nth_error (walk_nodes H (f root) p) (N.to_nat len) = Some (f u).
  (** the constraints mention keyed nodes only, and hold under the embedding *)
  Hypothesis Hargs : forall c k, In c cs -> In k (cargs c) -> In k (map snd nk).
  Hypothesis Hsat : forall c, In c cs -> pgval H (bind_of f nk) c = true.

  Let mstar := bind_of f nk.
  Definition inkeys (k : pgkey) : Prop := In k (map snd nk).
  Definition sub (m : pgmap) : Prop := forall k v, pgget m k = Some v -> pgget mstar k = Some v.

  Lemma mstar_key k : inkeys k -> exists u, In (u, k) nk /\ pgget mstar k = Some (f u).
  Proof.
    intros Hk. apply in_map_iff in Hk as [[u k'] [Ek Hin]]. cbn [snd] in Ek. subst k'.
    exists u. split; [exact Hin|]. now apply pgget_bind_of.
  Qed.

  Lemma inkeys_req k r : inkeys k -> In r (pg_req k) -> inkeys r.
  Proof.
    intros Hk Hr. destruct (mstar_key k Hk) as [u [Hin _]]. pose proof (Hsingle u k Hin) as Hs.
    destruct k as [i|r0 p l]; cbn [pg_req] in Hr.
    - subst i. cbn in Hr. destruct Hr.
    - subst r0. destruct Hr as [<-|[]]. apply in_map_iff. exists (root, PathRoot 0). auto.
  Qed.

  (** what list_bind_options offers for a key of the pattern whose prerequisites are bound *)
  Lemma opts_offer m k : sub m -> inkeys k -> pgget m k = None ->
    (forall r, In r (pg_req k) -> pgget m r <> None) ->
    exists vs v, pg_opts H k m = Ok vs /\ In v vs /\ pgget mstar k = Some v.
  Proof.
    intros Hs Hk Hg Hreq. destruct (mstar_key k Hk) as [u [Hin Em]]. pose proof (Hsingle u k Hin) as Hsg.
    unfold pg_opts. rewrite Hg. destruct k as [i|r0 p l].
    - subst i. cbn. exists (live_nodes H), (f root). split; [reflexivity|]. split; [exact Hlive|].
      unfold mstar. now apply pgget_bind_of.
    - subst r0. destruct (pgget m (PathRoot 0)) as [rv|] eqn:Er.
      + assert (rv = f root).
        { apply Hs in Er. unfold mstar in Er. rewrite (pgget_bind_of f nk root (PathRoot 0) Hkd Hroot) in Er. now inversion Er. }
        subst rv. rewrite (Hwalk u p l Hin). exists [f u], (f u). split; [reflexivity|]. split; [now left|exact Em].
      + exfalso. apply (Hreq (PathRoot 0)); [cbn; now left|exact Er].
  Qed.

  Lemma sub_insert m k v : sub m -> pgget mstar k = Some v -> sub (ainsert pgkey_eqb m k v).
  Proof.
    intros Hs Ev k' v' Hg. unfold pgget in Hg. destruct (pgkey_eqb k' k) eqn:Ek.
    - apply pgkey_eqb_eq in Ek. subst k'. rewrite (aget_ainsert_same pgkey_eqb pgkey_eqb_eq) in Hg. inversion Hg; subst. exact Ev.
    - rewrite (aget_ainsert_other pgkey_eqb pgkey_eqb_eq) in Hg; [now apply Hs|]. intros ->.
      rewrite (proj2 (pgkey_eqb_eq k k) eq_refl) in Ek. discriminate.
  Qed.

  (** binding a prerequisites-first list of pattern keys: one of the candidates
      follows the embedding *)
  Lemma ext_keys : forall keys m, sub m -> (forall k, In k keys -> inkeys k) ->
    (forall l1 k l2, keys = l1 ++ k :: l2 -> forall r, In r (pg_req k) -> In r l1 \/ pgget m r <> None) ->
    exists m', ext_rel pg_dom H false keys m m' /\ sub m'
               /\ (forall k, In k keys -> pgget m' k <> None)
               /\ (forall k v, pgget m k = Some v -> pgget m' k = Some v).
  Proof.
    induction keys as [|k ks IH]; intros m Hs Hin Hpre.
    - exists m. split; [constructor|]. split; [exact Hs|]. split; [intros k []|auto].
    - assert (Hk : inkeys k) by (apply Hin; now left).
      destruct (pgget m k) as [v0|] eqn:Hg.
      + destruct (IH m Hs (fun x Hx => Hin x (or_intror Hx))) as [m' [He [Hs' [Hb Hm]]]].
        { intros l1 x l2 E r Hr. destruct (Hpre (k :: l1) x l2 ltac:(now rewrite E) r Hr) as [[<-|Hl]|Hbd]; [right; congruence|now left|now right]. }
        exists m'. split; [eapply ext_bound; eauto|]. split; [exact Hs'|]. split; [|exact Hm].
        intros x [<-|Hx]; [rewrite (Hm _ _ Hg); discriminate|now apply Hb].
      + destruct (opts_offer m k Hs Hk Hg) as [vs [v [Ho [Hv Em]]]].
        { intros r Hr. destruct (Hpre [] k ks eq_refl r Hr) as [[]|Hbd]. exact Hbd. }
        set (m1 := ainsert pgkey_eqb m k v).
        assert (Hb1 : mbind pg_dom m k v = Some m1).
        { cbn [mbind pg_dom]. unfold abind. change (aget pgkey_eqb m k) with (pgget m k). now rewrite Hg. }
        assert (Hg1 : pgget m1 k = Some v) by (unfold pgget, m1; apply (aget_ainsert_same pgkey_eqb pgkey_eqb_eq)).
        assert (Hmono : forall k' v', pgget m k' = Some v' -> pgget m1 k' = Some v').
        { intros k' v' Hg'. unfold pgget, m1. rewrite (aget_ainsert_other pgkey_eqb pgkey_eqb_eq); [exact Hg'|]. intros ->. congruence. }
        destruct (IH m1 (sub_insert m k v Hs Em) (fun x Hx => Hin x (or_intror Hx))) as [m' [He [Hs' [Hb Hm]]]].
        { intros l1 x l2 E r Hr. destruct (Hpre (k :: l1) x l2 ltac:(now rewrite E) r Hr) as [[<-|Hl]|Hbd]; [right; congruence|now left|].
          right. destruct (pgget m r) as [vr|] eqn:Er; [|contradiction]. rewrite (Hmono _ _ Er). discriminate. }
        exists m'. split; [eapply ext_bind; eauto|]. split; [exact Hs'|]. split.
        * intros x [<-|Hx]; [rewrite (Hm _ _ Hg1); discriminate|now apply Hb].
        * intros k' v' Hg'. apply Hm. now apply Hmono.
  Qed.

  Lemma closure_inkeys keys x : (forall k, In k keys -> inkeys k) ->
    closure_list pg_req (fun x => In x []) keys x -> inkeys x.
  Proof.
    intros Hk [key [Hin Hc]]. induction Hc as [|k r Hc IH Hr _]; [now apply Hk|]. eapply inkeys_req; eauto.
  Qed.

  (** a constraint that holds under the embedding holds under every sub-map that binds its arguments *)
  Lemma resolve_sub m args : sub m -> (forall k, In k args -> pgget m k <> None) ->
    resolve_args pg_dom m args = resolve_args pg_dom mstar args.
  Proof.
    intros Hs. induction args as [|k ks IH]; intros Hb; [reflexivity|]. cbn [resolve_args].
    change (mget pg_dom m k) with (pgget m k). change (mget pg_dom mstar k) with (pgget mstar k).
    destruct (pgget m k) as [v|] eqn:Hg; [|exfalso; apply (Hb k); [now left|exact Hg]].
    rewrite (Hs _ _ Hg). rewrite IH; [reflexivity|]. intros x Hx. apply Hb. now right.
  Qed.

  Lemma sat_sub m c : In c cs -> sub m -> (forall k, In k (cargs c) -> pgget m k <> None) ->
    sat_or_false pg_dom H c m = Ok true.
  Proof.
    intros Hc Hs Hb. pose proof (Hsat c Hc) as Hv. unfold pgval in Hv. fold mstar in Hv.
    unfold sat_or_false, is_satisfied, is_satisfied_calls, rmap.
    rewrite (resolve_sub m (cargs c) Hs Hb).
    destruct (resolve_args pg_dom mstar (cargs c)) as [k|vs]; [discriminate|].
    cbn [check pg_dom]. destruct (pg_check H (cpred c) vs) as [[|]| |]; try discriminate. reflexivity.
  Qed.

  (** ** the loop *)
  Variable reqk : list pgkey.
  Hypothesis Hreqk : forall k, In k reqk <-> closure_list pg_req (fun x => In x []) (flat_map cargs cs) k.

  Definition Qm (m : pgmap) : Prop := forall u k, In (u, k) nk -> In k reqk -> pgget m k = Some (f u).

  Lemma deriv_all : forall rest bset m,
    (forall c, In c rest -> In c cs) -> sub m -> (forall k, In k bset -> pgget m k <> None) ->
    (forall k, In k reqk -> In k bset \/ closure_list pg_req (fun x => In x []) (flat_map cargs rest) k) ->
    derivable pg_dom H reqk Qm rest m.
  Proof.
    induction rest as [|c rest IH]; intros bset m Hin Hs Hb Hcov; cbn [derivable].
    - (* every requested key is bound *)
      intros bs bs' B R.
      assert (Hall : forall k, In k reqk -> pgget m k <> None).
      { intros k Hk. destruct (Hcov k Hk) as [Hk'|[key [[] _]]]. now apply Hb. }
      assert (Ef : filter (is_unbound pg_dom m) reqk = []).
      { clear - Hall. induction reqk as [|k ks IHk]; [reflexivity|]. cbn [filter]. unfold is_unbound at 1.
        change (mget pg_dom m k) with (pgget m k). destruct (pgget m k) eqn:Eg; [|exfalso; apply (Hall k); [now left|exact Eg]].
        apply IHk. intros x Hx. apply Hall. now right. }
      rewrite Ef in B. cbn in B. inversion B; subst bs. cbn in R. inversion R; subst bs'.
      exists (aretain pgkey_eqb reqk m). split; [now left|]. split.
      + unfold all_bound. apply forallb_forall. intros k Hk. change (mget pg_dom (aretain pgkey_eqb reqk m) k) with (pgget (aretain pgkey_eqb reqk m) k).
        unfold pgget. rewrite (aretain_get pgkey_eqb pgkey_eqb_eq). rewrite (proj2 (memb_in pgkey_eqb pgkey_eqb_eq k reqk) Hk).
        change (aget pgkey_eqb m k) with (pgget m k). destruct (pgget m k) eqn:Eg; [reflexivity|exfalso; apply (Hall k Hk Eg)].
      + intros u k Hnk Hk. unfold pgget. rewrite (aretain_get pgkey_eqb pgkey_eqb_eq). rewrite (proj2 (memb_in pgkey_eqb pgkey_eqb_eq k reqk) Hk).
        change (aget pgkey_eqb m k) with (pgget m k). destruct (pgget m k) as [v|] eqn:Eg; [|exfalso; apply (Hall k Hk Eg)].
        apply Hs in Eg. unfold mstar in Eg. rewrite (pgget_bind_of f nk u k Hkd Hnk) in Eg. now symmetry.
    - intros fuel keys cands ok A B F.
      assert (Hc : In c cs) by (apply Hin; now left).
      unfold amb in A. change (keqb pg_dom) with pgkey_eqb in A. change (req pg_dom) with pg_req in A.
      destruct (all_missing_ok pgkey_eqb pg_req pgkey_eqb_eq fuel (cargs c) [] keys pg_req_acyclic A) as [_ [Hk [Hpf _]]].
      assert (Hkeys : forall k, In k keys -> inkeys k).
      { intros k Hk'. apply Hk in Hk'. eapply closure_inkeys; [|exact Hk']. intros x Hx. eapply Hargs; eauto. }
      destruct (ext_keys keys m Hs Hkeys) as [m' [He [Hs' [Hbk Hmono]]]].
      { intros l1 k l2 E r Hr. left. apply (Hpf l1 k l2 E r Hr). tauto. }
      assert (Hcand : In m' cands).
      { apply bind_all_eq_spec in B. apply (extend_rel pg_dom H false keys m cands m' B). exact He. }
      assert (Hargs_b : forall k, In k (cargs c) -> pgget m' k <> None).
      { intros k Hk'. apply Hbk. apply Hk. exists k. split; [exact Hk'|]. constructor. tauto. }
      exists m'. split; [eapply filter_satb_keeps; eauto; now apply sat_sub|].
      apply (IH (bset ++ keys) m'); [intros x Hx; apply Hin; now right|exact Hs'| |].
      + intros k Hk'. apply in_app_or in Hk' as [Hk'|Hk']; [|now apply Hbk].
        destruct (pgget m k) as [v|] eqn:Eg; [rewrite (Hmono _ _ Eg); discriminate|exfalso; apply (Hb k Hk' Eg)].
      + intros k Hk'. destruct (Hcov k Hk') as [Hb'|[key [Hkey Hcl]]]; [left; apply in_or_app; now left|].
        cbn [flat_map] in Hkey. apply in_app_or in Hkey as [Hkey|Hkey].
        * left. apply in_or_app. right. apply Hk. exists key. auto.
        * right. exists key. auto.
  Qed.

  Theorem pg_single_loop_reports fuel r :
    single_loop pg_dom fuel H reqk [(cs, [])] [] = Ok r -> exists m', In m' r /\ Qm m'.
  Proof.
    intros S. destruct (single_loop_complete pg_dom H reqk Qm fuel _ _ _ S) as [_ Hq].
    apply (Hq cs []); [now left|].
    apply (deriv_all cs [] []); [auto|intros k v Hg; discriminate|intros k []|].
    intros k Hk. right. now apply Hreqk.
  Qed.
End PGSingleComplete.
