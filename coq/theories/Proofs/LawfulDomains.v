(** The string and matrix position maps are lawful binding maps in the sense of
    Proofs/RunSound.v, on key lists that are duplicate-free and contain the
    start key (or are empty). *)
From PM Require Import Model.Prelude Model.Domain Model.BindMaps Model.DomString Model.DomMatrix
  Proofs.BindMapProofs Proofs.BindMapMatrixProofs Proofs.RunSound Cert.CharCert.


Lemma Neqb_iff a b : N.eqb a b = true <-> a = b.
Proof. apply N.eqb_eq. Qed.

Theorem string_lawful : Lawful string_dom (fun _ _ => True) s_goodb.
Proof.
  constructor; auto.
  - exact sbind_monotone.
  - intros h ks m m' G _ R. split; auto.
    unfold s_goodb in G. apply andb_true_iff in G as [Hnd H0].
    apply (nodupb_NoDup N.eqb Neqb_iff) in Hnd.
    destruct ks as [|k ks'].
    + intros k [].
    + apply (memb_in N.eqb Neqb_iff) in H0.
      destruct (s_retain_ok (k :: ks') m Hnd H0) as [m'' [E [Hk _]]].
      change (mretain string_dom (k :: ks') m)
        with (retain_rounds_default SUnbound sget sbind (k :: ks') m) in R.
      rewrite E in R. inversion R; subst. exact Hk.
Qed.


(** matrix invariant: the box contains the start key, and the start value is an
    existing cell of the host (it was offered by list_bind_options) *)
Definition m_inv (h : mhost) (m : mpm) : Prop :=
  mm_wf m /\ match m with MBound s _ _ => cell_at h s <> None | MUnbound => True end.

Lemma all_cells_exist (h : mhost) : forall r0 v, In v (all_cells_from h r0) ->
  exists row, nth_error h (N.to_nat (fst v - r0)) = Some row /\ (r0 <= fst v)%N
              /\ (N.to_nat (snd v) < length row)%nat.
Proof.
  induction h as [|row rows IH]; intros r0 v Hin; cbn in Hin; [destruct Hin|].
  apply in_app_or in Hin as [Hin|Hin].
  - apply in_map_iff in Hin as [c [<- Hc]]. cbn. exists row.
    rewrite N.sub_diag. cbn. split; auto. split; [lia|].
    unfold nseq in Hc. apply in_map_iff in Hc as [n [<- Hn]]. apply in_seq in Hn.
    rewrite Nat2N.id. lia.
  - destruct (IH _ _ Hin) as [row' [Hn [Hle Hc]]]. exists row'. split; [|split; [lia|exact Hc]].
    replace (N.to_nat (fst v - r0)) with (S (N.to_nat (fst v - (r0 + 1)))) by lia. exact Hn.
Qed.

Theorem matrix_lawful : Lawful matrix_dom m_inv m_goodb.
Proof.
  constructor.
  - intros h. split; exact I.
  - intros h m k v vs m' [W S] O Hin B. split; [eapply mm_wf_bind; eauto|].
    cbn in O, B. unfold m_opts in O. unfold mmbind in B.
    destruct (mkey_eqb k (0, 0)%Z).
    + destruct m; [|discriminate]. inversion B; subst. inversion O; subst.
      destruct (all_cells_exist h 0%N v Hin) as [row [Hn [_ Hc]]].
      unfold cell_at. rewrite N.sub_0_r in Hn. rewrite Hn.
      apply nth_error_Some. exact Hc.
    + destruct m as [|s a b]; [discriminate|]. inversion B; subst. exact S.
  - exact mmbind_monotone.
  - intros h ks m m' G [W S] R.
    unfold m_goodb in G. apply andb_true_iff in G as [Hnd H0].
    apply (nodupb_NoDup mkey_eqb mkey_eqb_spec) in Hnd.
    change (mretain matrix_dom ks m) with (m_retain ks m) in R.
    destruct ks as [|k ks'].
    + unfold m_retain in R. cbn in R. inversion R; subst. split; [split; exact I|intros k []].
    + apply (memb_in mkey_eqb mkey_eqb_spec) in H0.
      assert (Hp : existsb (mmget_panics m) (k :: ks') = false).
      { unfold m_retain in R. destruct (existsb (mmget_panics m) (k :: ks')); [discriminate|reflexivity]. }
      destruct (m_retain_ok (k :: ks') m Hnd H0 W Hp) as [m'' [E [W' [Hk _]]]].
      rewrite E in R. inversion R; subst. split; [|exact Hk]. split; [exact W'|].
      (* the start value is unchanged: read it back through key (0,0) *)
      destruct m' as [|s' a' b']; [exact I|].
      specialize (Hk (0, 0)%Z H0).
      destruct m as [|s a b].
      * cbn in Hk. cbn in W'. apply in_box_iff in W'. rewrite W' in Hk.
        unfold add_signed in Hk. rewrite !Z.add_0_r in Hk.
        destruct (Z.ltb_spec (Z.of_N (fst s')) 0); [lia|].
        destruct (Z.ltb_spec (Z.of_N (snd s')) 0); [lia|]. discriminate.
      * cbn in Hk. cbn in W, W'. apply in_box_iff in W, W'. rewrite W, W' in Hk.
        unfold add_signed in Hk. rewrite !Z.add_0_r in Hk.
        destruct (Z.ltb_spec (Z.of_N (fst s')) 0); [lia|].
        destruct (Z.ltb_spec (Z.of_N (snd s')) 0); [lia|].
        destruct (Z.ltb_spec (Z.of_N (fst s)) 0); [lia|].
        destruct (Z.ltb_spec (Z.of_N (snd s)) 0); [lia|].
        rewrite !N2Z.id in Hk. inversion Hk.
        destruct s as [s1 s2], s' as [s1' s2']. cbn in *. subst. exact S.
Qed.

(** strings and matrices: every constraint is its own single atom *)

Lemma atoms_self_sound {K V M H P} (D : DomOps K V M H P) h (c : constraint K P) m :
  (forall a, In a (atoms_self c) -> holds D h a m) -> holds D h c m.
Proof. intros Hh. apply Hh. now left. Qed.

Lemma atoms_self_complete {K V M H P} (D : DomOps K V M H P) h (c : constraint K P) m :
  holds D h c m -> forall a, In a (atoms_self c) -> holds D h a m.
Proof. intros Hh a [<-|[]]. exact Hh. Qed.

Lemma string_dom_eq : DomEq string_dom.
Proof.
  constructor; cbn.
  - apply N.eqb_eq.
  - apply N.eqb_eq.
  - intros [|c] [|d]; cbn; split; intros X; try discriminate; try reflexivity.
    + apply N.eqb_eq in X. now subst.
    + inversion X. apply N.eqb_refl.
Qed.

Lemma matrix_dom_eq : DomEq matrix_dom.
Proof.
  constructor; cbn.
  - exact mkey_eqb_spec.
  - exact mval_eqb_spec.
  - intros [|c] [|d]; cbn; split; intros X; try discriminate; try reflexivity.
    + apply N.eqb_eq in X. now subst.
    + inversion X. apply N.eqb_refl.
Qed.
