(** The string and matrix position maps are lawful binding maps in the sense of
    Proofs/RunSound.v, on key lists that are duplicate-free and contain the
    start key (or are empty). *)
From PM Require Import Model.Prelude Model.Domain Model.BindMaps Model.DomString Model.DomMatrix
  Proofs.BindMapProofs Proofs.BindMapMatrixProofs Proofs.RunSound Cert.CharCert.


Lemma Neqb_iff a b : N.eqb a b = true <-> a = b.
Proof. apply N.eqb_eq. Qed.

Theorem string_lawful : Lawful string_dom (fun _ => True) s_goodb.
Proof.
  constructor; auto.
  - exact sbind_monotone.
  - intros ks m m' G _ R. split; auto.
    unfold s_goodb in G. apply andb_true_iff in G as [Hnd H0].
    apply (nodupb_NoDup N.eqb Neqb_iff) in Hnd.
    destruct ks as [|k ks'].
    + intros k [].
    + apply (memb_in N.eqb Neqb_iff) in H0.
      destruct (s_retain_ok (k :: ks') m Hnd H0) as [m'' [E [Hk _]]].
      change (mretain string_dom (k :: ks') m)
        with (retain_rounds_default SUnbound sget sbind (k :: ks') m) in R.
      rewrite E in R. inversion R; subst. exact Hk.
Qed.


Theorem matrix_lawful : Lawful matrix_dom mm_wf m_goodb.
Proof.
  constructor.
  - exact I.
  - intros m k v m' W B. eapply mm_wf_bind; eauto.
  - exact mmbind_monotone.
  - intros ks m m' G W R.
    unfold m_goodb in G. apply andb_true_iff in G as [Hnd H0].
    apply (nodupb_NoDup mkey_eqb mkey_eqb_spec) in Hnd.
    change (mretain matrix_dom ks m) with (m_retain ks m) in R.
    destruct ks as [|k ks'].
    + unfold m_retain in R. cbn in R. inversion R; subst. split; [exact I|intros k []].
    + apply (memb_in mkey_eqb mkey_eqb_spec) in H0.
      assert (Hp : existsb (mmget_panics m) (k :: ks') = false).
      { unfold m_retain in R. destruct (existsb (mmget_panics m) (k :: ks')); [discriminate|reflexivity]. }
      destruct (m_retain_ok (k :: ks') m Hnd H0 W Hp) as [m'' [E [W' [Hk _]]]].
      rewrite E in R. inversion R; subst. split; auto.
Qed.

(** strings and matrices: every constraint is its own single atom *)

Lemma atoms_self_sound {K V M H P} (D : DomOps K V M H P) h (c : constraint K P) m :
  (forall a, In a (atoms_self c) -> holds D h a m) -> holds D h c m.
Proof. intros Hh. apply Hh. now left. Qed.

Lemma atoms_self_complete {K V M H P} (D : DomOps K V M H P) h (c : constraint K P) m :
  holds D h c m -> forall a, In a (atoms_self c) -> holds D h a m.
Proof. intros Hh a [<-|[]]. exact Hh. Qed.

Lemma string_dom_eq : DomEq string_dom.
Proof.
  constructor; cbn.
  - apply N.eqb_eq.
  - apply N.eqb_eq.
  - intros [|c] [|d]; cbn; split; intros X; try discriminate; try reflexivity.
    + apply N.eqb_eq in X. now subst.
    + inversion X. apply N.eqb_refl.
Qed.

Lemma matrix_dom_eq : DomEq matrix_dom.
Proof.
  constructor; cbn.
  - exact mkey_eqb_spec.
  - exact mval_eqb_spec.
  - intros [|c] [|d]; cbn; split; intros X; try discriminate; try reflexivity.
    + apply N.eqb_eq in X. now subst.
    + inversion X. apply N.eqb_refl.
Qed.
