(** Soundness of the automaton traversal w.r.t. a checked labelling
    (C01, generic over the domain): every match emitted by [run] on an
    automaton that passes [lab_ok] satisfies every constraint of its pattern. *)
From PM Require Import Model.Prelude Model.Domain Model.Constraint Model.BindAll Model.Automaton
  Model.Traversal Spec.Extends Proofs.BindAllProofs Cert.LabCheck.

(** What the engine needs from a binding map. [Inv] is an invariant of the maps
    that occur in a run, [goodb] the key lists on which retain_keys is lawful. *)
Record Lawful {K V M H P} (D : DomOps K V M H P) (Inv : H -> M -> Prop) (goodb : list K -> bool) : Prop := {
  law_inv_empty : forall h, Inv h (mempty D);
  (* binding a value the host offers keeps the invariant *)
  law_bind_inv : forall h m k v vs m', Inv h m -> opts D h k m = Ok vs -> In v vs ->
    mbind D m k v = Some m' -> Inv h m';
  law_bind_mono : forall m k v m', mbind D m k v = Some m' ->
    forall k' v', mget D m k' = Some v' -> mget D m' k' = Some v';
  law_retain : forall h ks m m', goodb ks = true -> Inv h m -> mretain D ks m = Ok m' ->
    Inv h m' /\ forall k, In k ks -> mget D m' k = mget D m k;
}.

Section RunSound.
  Context {K V M H P : Type} (D : DomOps K V M H P) (E : DomEq D).
  Variable Inv : H -> M -> Prop.
  Variable goodb : list K -> bool.
  Variable atoms : constraint K P -> list (constraint K P).
  Hypothesis LAW : Lawful D Inv goodb.

  Notation C := (constraint K P).

  (** the constraint is satisfied under the bindings: all arguments are bound
      and the predicate accepts their values *)
  Definition holds (h : H) (c : C) (m : M) : Prop :=
    exists vs, resolve_args D m (cargs c) = inr vs /\ check D h (cpred c) vs = Ok true.

  Hypothesis atoms_sound : forall h c m, (forall a, In a (atoms c) -> holds h a m) -> holds h c m.
  Hypothesis atoms_complete : forall h c m, holds h c m -> forall a, In a (atoms c) -> holds h a m.

  Definition le (m m' : M) : Prop := forall k v, mget D m k = Some v -> mget D m' k = Some v.

  Lemma le_refl m : le m m.
  Proof. intros k v; auto. Qed.

  Lemma le_trans a b c : le a b -> le b c -> le a c.
  Proof. intros H1 H2 k v G. auto. Qed.

  Lemma resolve_le m m' args vs :
    le m m' -> resolve_args D m args = inr vs -> resolve_args D m' args = inr vs.
  Proof.
    intros L. revert vs. induction args as [|k ks IH]; intros vs R; cbn in *; auto.
    destruct (mget D m k) as [v|] eqn:G; [|discriminate].
    rewrite (L _ _ G).
    destruct (resolve_args D m ks) as [k'|vs'] eqn:R'; [discriminate|].
    rewrite (IH vs' eq_refl). exact R.
  Qed.

  Lemma resolve_agree m m' args :
    (forall k, In k args -> mget D m' k = mget D m k) ->
    resolve_args D m' args = resolve_args D m args.
  Proof.
    induction args as [|k ks IH]; intros A; cbn; auto.
    rewrite (A k (or_introl eq_refl)). rewrite IH; auto. intros k' Hk. apply A. now right.
  Qed.

  Lemma holds_le h c m m' : le m m' -> holds h c m -> holds h c m'.
  Proof. intros L [vs [R Ck]]. exists vs. split; auto. eapply resolve_le; eauto. Qed.

  Lemma holds_agree h c m m' :
    (forall k, In k (cargs c) -> mget D m' k = mget D m k) -> holds h c m -> holds h c m'.
  Proof. intros A [vs [R Ck]]. exists vs. split; auto. now rewrite (resolve_agree m m'). Qed.

  Lemma sat_holds h c m : sat_or_false D h c m = Ok true -> holds h c m.
  Proof.
    unfold sat_or_false, is_satisfied, is_satisfied_calls, rmap.
    destruct (resolve_args D m (cargs c)) as [k|vs] eqn:R; cbn; [discriminate|].
    destruct (check D h (cpred c) vs) as [b| |] eqn:Ck; cbn; try discriminate.
    intros X. inversion X; subst. exists vs. auto.
  Qed.

  (** bind_all only extends *)
  Lemma ext_rel_le h inc ks m m' : ext_rel D h inc ks m m' -> le m m' /\ (Inv h m -> Inv h m').
  Proof.
    induction 1 as [m|k ks m m' v G R IH|k ks m m' G O I R IH|k ks m m1 m' vs v G O Hin B R IH].
    - split; [apply le_refl|auto].
    - exact IH.
    - exact IH.
    - destruct IH as [L1 I1]. split.
      + eapply le_trans; [|exact L1]. intros k' v' G'. eapply (law_bind_mono D Inv goodb LAW); eauto.
      + intros I. apply I1. eapply (law_bind_inv D Inv goodb LAW h m k v vs); eauto.
  Qed.

  Lemma bind_all_le h m ks inc r m' :
    bind_all D h m ks inc = Ok r -> In m' r -> le m m' /\ (Inv h m -> Inv h m').
  Proof.
    intros B Hin. apply bind_all_eq_spec in B.
    apply (extend_rel D h inc ks m r m' B) in Hin. now apply ext_rel_le in Hin.
  Qed.

  (** ** the certificate, read as propositions *)
  Variable A : automaton K P.
  Variable L : labelling (K := K) (P := P).
  Variable cs : list (list C).
  Hypothesis CERT : lab_ok D goodb atoms A L cs = true.

  Definition cmem_in c l : cmem D c l = true <-> In c l := memb_in (ceqb D) (ceqb_spec D E) c l.

  Lemma kincl_incl a b : kincl D a b = true <-> incl a b.
  Proof. apply inclb_incl. apply (keqb_spec D E). Qed.

  Lemma find_state_in (l : list (astate K P)) id s : find_state l id = Some s -> In s l /\ a_id s = id.
  Proof.
    induction l as [|x l IH]; cbn; [discriminate|].
    destruct (N.eqb (a_id x) id) eqn:Eq.
    - intros X. inversion X; subst. apply N.eqb_eq in Eq. auto.
    - intros X. destruct (IH X). auto.
  Qed.

  Lemma get_state_ok id s : get_state A id = Ok s ->
    a_id s = id /\ state_ok D goodb atoms L cs s = true.
  Proof.
    unfold get_state. destruct (find_state (au_states A) id) as [s'|] eqn:F; [|discriminate].
    intros X. inversion X; subst. apply find_state_in in F as [Hin Hid]. split; auto.
    unfold lab_ok in CERT. apply andb_true_iff in CERT as [_ CS].
    rewrite forallb_forall in CS. auto.
  Qed.

  Definition item_ok (h : H) (it : N * M) : Prop :=
    Inv h (snd it) /\ forall f, In f (lab_get L (fst it)) -> holds h f (snd it).

  Definition match_ok (h : H) (pm : N * M) : Prop :=
    Inv h (snd pm) /\ exists cp, nth_error cs (N.to_nat (fst pm)) = Some cp /\ forall c, In c cp -> holds h c (snd pm).

  Lemma rmapM_in {X Y} (f : X -> res Y) l r y :
    rmapM f l = Ok r -> In y r -> exists x, In x l /\ f x = Ok y.
  Proof.
    revert r. induction l as [|x l IH]; intros r R Hin; cbn in R.
    - inversion R; subst. destruct Hin.
    - destruct (f x) as [y0| |] eqn:F; cbn in R; try discriminate.
      destruct (rmapM f l) as [ys| |] eqn:R'; cbn in R; try discriminate.
      inversion R; subst. destruct Hin as [<-|Hin].
      + exists x. split; [now left|exact F].
      + destruct (IH ys eq_refl Hin) as [x' [H1 H2]]. exists x'. split; [now right|exact H2].
  Qed.

  Lemma filter_sat_in h m l r t :
    filter_sat D h m l = Ok r -> In t r -> exists c, In (c, t) l /\ sat_or_false D h c m = Ok true.
  Proof.
    revert r. induction l as [|[c t'] l IH]; intros r R Hin; cbn in R.
    - inversion R; subst. destruct Hin.
    - destruct (sat_or_false D h c m) as [b| |] eqn:S; cbn in R; try discriminate.
      destruct (filter_sat D h m l) as [r'| |] eqn:R'; cbn in R; try discriminate.
      inversion R; subst. destruct b.
      + destruct Hin as [<-|Hin].
        * exists c. split; [now left|auto].
        * destruct (IH r' eq_refl Hin) as [c' [H1 H2]]. exists c'. split; [now right|auto].
      + destruct (IH r' eq_refl Hin) as [c' [H1 H2]]. exists c'. split; [now right|auto].
  Qed.

  Lemma eps_targets_fail (s : astate K P) ets t :
    eps_targets s = Some ets -> fail_next_state s = Ok (Some t) -> In t ets.
  Proof.
    unfold eps_targets, fail_next_state.
    destruct (a_eorder s) as [|id [|id2 rest]]; try discriminate.
    cbn. destruct (find_edge (a_out s) id) as [e|]; cbn; [|discriminate].
    intros X Y. inversion X; subst. inversion Y; subst. now left.
  Qed.

  (** one step of the traversal preserves the invariant *)
  Lemma next_legal_ok h id s m nexts :
    get_state A id = Ok s -> item_ok h (id, m) ->
    next_legal_states D h s m = Ok nexts ->
    forall it, In it nexts -> item_ok h it.
  Proof.
    intros G [I F] N it Hin. destruct (get_state_ok _ _ G) as [Hid SO]. subst id.
    unfold state_ok in SO. apply andb_true_iff in SO as [Gs SO].
    unfold next_legal_states in N.
    destruct (bind_all D h m (a_scope s) true) as [cands| |] eqn:B; cbn in N; try discriminate.
    destruct (rmapM (mretain D (a_scope s)) cands) as [cands'| |] eqn:R; cbn in N; try discriminate.
    destruct (cons_transitions s) as [cts| |] eqn:CT; try discriminate.
    destruct (eps_targets s) as [ets|] eqn:ET; [|discriminate].
    apply andb_true_iff in SO as [SO _]. apply andb_true_iff in SO as [SC SE].
    cbn in N.
    destruct (proj1 (rflatM_in _ _ _ _ N) Hin) as [b [ys [Hb [Hf Hy]]]].
    destruct (rmapM_in _ _ _ _ R Hb) as [m1 [Hm1 Rm]].
    destruct (bind_all_le _ _ _ _ _ _ B Hm1) as [L1 I1].
    destruct (law_retain D Inv goodb LAW h _ _ _ Gs (I1 I) Rm) as [Ib Ab].
    (* facts of the source that stay in scope hold of b *)
    assert (Keep : forall f, In f (lab_get L (a_id s)) -> incl (cargs f) (a_scope s) -> holds h f b).
    { intros f Hf' Hk. apply (holds_agree h f m1 b).
      - intros k Hk'. apply Ab. apply Hk. exact Hk'.
      - eapply holds_le; eauto. }
    destruct (filter_sat D h b cts) as [fired| |] eqn:FS; cbn in Hf; try discriminate.
    destruct (if negb (a_det s) || match fired with [] => true | _ => false end
              then fail_next_state s else Ok None) as [fail| |] eqn:FN; cbn in Hf; try discriminate.
    inversion Hf; subst. apply in_app_or in Hy. destruct Hy as [Hc|He].
    - apply in_map_iff in Hc as [t [<- Ht]].
      destruct (filter_sat_in _ _ _ _ _ FS Ht) as [c [Hct Sat]].
      rewrite forallb_forall in SC. specialize (SC _ Hct). cbn in SC.
      unfold edge_ok in SC. rewrite forallb_forall in SC.
      split; [exact Ib|]. cbn. intros f Hf'. specialize (SC _ Hf').
      apply andb_true_iff in SC as [Src Hk]. apply kincl_incl in Hk.
      apply orb_true_iff in Src as [Src|Src].
      + apply cmem_in in Src. auto.
      + apply cmem_in in Src. eapply atoms_complete; [|exact Src]. now apply sat_holds.
    - destruct fail as [t|]; [|destruct He]. destruct He as [<-|[]].
      assert (FN' : fail_next_state s = Ok (Some t)).
      { destruct (negb (a_det s) || match fired with [] => true | _ => false end); [exact FN|discriminate]. }
      pose proof (eps_targets_fail _ _ _ ET FN') as Ht.
      rewrite forallb_forall in SE. specialize (SE _ Ht).
      unfold edge_ok in SE. rewrite forallb_forall in SE.
      split; [exact Ib|]. cbn. intros f Hf'. specialize (SE _ Hf').
      apply andb_true_iff in SE as [Src Hk]. apply kincl_incl in Hk.
      apply orb_true_iff in Src as [Src|Src]; [|cbn in Src; discriminate].
      apply cmem_in in Src. auto.
  Qed.

  (** matches emitted at a state satisfy their pattern's constraints *)
  Lemma emissions_ok h id s m ms :
    get_state A id = Ok s -> item_ok h (id, m) ->
    emissions D h s m = Ok ms -> forall pm, In pm ms -> match_ok h pm.
  Proof.
    intros G [I F] Em pm Hin. destruct (get_state_ok _ _ G) as [Hid SO]. subst id.
    unfold state_ok in SO. apply andb_true_iff in SO as [_ SO].
    destruct (cons_transitions s) as [cts| |]; try discriminate.
    destruct (eps_targets s) as [ets|]; [|discriminate].
    apply andb_true_iff in SO as [_ SA]. rewrite forallb_forall in SA.
    unfold emissions in Em.
    destruct (proj1 (rflatM_in _ _ _ _ Em) Hin) as [[pid keys] [ys [Hpk [Hf Hy]]]].
    specialize (SA _ Hpk). unfold accept_ok in SA. cbn in SA.
    apply andb_true_iff in SA as [Gk SA].
    destruct (nth_error cs (N.to_nat pid)) as [cp|] eqn:Nth; [|discriminate].
    rewrite forallb_forall in SA.
    set (new_keys := filter (fun k => match mget D m k with None => true | Some _ => false end) keys) in Hf.
    destruct (match new_keys with [] => Ok [m] | _ => bind_all D h m new_keys false end)
      as [bs| |] eqn:B; cbn in Hf; try discriminate.
    destruct (rmapM (mretain D keys) bs) as [bs'| |] eqn:R; cbn in Hf; try discriminate.
    inversion Hf; subst. apply in_map_iff in Hy as [b [<- Hb]]. clear Hf.
    destruct (rmapM_in _ _ _ _ R Hb) as [m1 [Hm1 Rm]].
    assert (L1 : le m m1 /\ (Inv h m -> Inv h m1)).
    { destruct new_keys.
      - inversion B; subst. destruct Hm1 as [<-|[]]. split; [apply le_refl|auto].
      - eapply bind_all_le; eauto. }
    destruct L1 as [L1 I1].
    destruct (law_retain D Inv goodb LAW h _ _ _ Gk (I1 I) Rm) as [Ib Ab].
    split; [exact Ib|]. exists cp. split; [exact Nth|]. cbn. intros c Hc.
    specialize (SA _ Hc). apply andb_true_iff in SA as [Hk Hat]. apply kincl_incl in Hk.
    apply (holds_agree h c m1 b).
    - intros k Hk'. apply Ab. apply Hk. exact Hk'.
    - eapply holds_le; [exact L1|]. apply atoms_sound. intros a Ha.
      rewrite forallb_forall in Hat. specialize (Hat _ Ha). apply cmem_in in Hat. apply F. exact Hat.
  Qed.

  Lemma run_loop_sound h : forall fuel queue vis acc ms,
    Forall (item_ok h) queue -> (forall pm, In pm acc -> match_ok h pm) ->
    run_loop D fuel A h queue vis acc = Ok ms ->
    forall pm, In pm ms -> match_ok h pm.
  Proof.
    induction fuel as [|f IH]; intros queue vis acc ms Q Acc R pm Hin; cbn in R; [discriminate|].
    destruct queue as [|[id m] q].
    - inversion R; subst. apply Acc. now apply in_rev.
    - inversion Q as [|x l Hit Hq]; subst.
      destruct (get_state A id) as [s| |] eqn:G; cbn in R; try discriminate.
      destruct (visited_mem D id (view D s m) vis).
      + eapply IH; eauto.
      + destruct (emissions D h s m) as [em| |] eqn:Em; cbn in R; try discriminate.
        destruct (next_legal_states D h s m) as [nexts| |] eqn:Nx; cbn in R; try discriminate.
        eapply IH; [| |exact R|exact Hin].
        * apply Forall_app. split; auto. apply Forall_forall.
          intros it Hit'. eapply next_legal_ok; eauto.
        * intros pm' Hpm. apply in_app_or in Hpm as [Hpm|Hpm]; auto.
          apply in_rev in Hpm. eapply emissions_ok; eauto.
  Qed.

  Theorem run_sound h fuel ms :
    run D fuel A h = Ok ms -> forall pm, In pm ms -> match_ok h pm.
  Proof.
    intros R. eapply run_loop_sound; [| |exact R].
    - constructor; [|constructor]. split; cbn.
      + apply (law_inv_empty D Inv goodb LAW).
      + unfold lab_ok in CERT. apply andb_true_iff in CERT as [C0 _].
        destruct (lab_get L (au_root A)); [intros f []|discriminate].
    - intros pm [].
  Qed.
End RunSound.
