(** Matrices: the exactness of the one-pattern matcher for every constraint list with the same
    elements as [m_cvec p] (cf. StringSingleAnyOrder.v). *)
From PM Require Import Model.Prelude Model.Domain Model.Constraint Model.BindAll Model.Scheme Model.Matchers
  Model.BindMaps Model.DomString Model.DomMatrix Spec.Extends Spec.TopoSpec Spec.Occ Cert.CharCert
  Proofs.SchemeProofs Proofs.BindAllProofs Proofs.BindMapProofs Proofs.BindMapMatrixProofs Proofs.RunSound
  Proofs.LawfulDomains Proofs.CellsProofs Proofs.OccMatrix Proofs.OccProofs Proofs.SingleSound Proofs.SingleComplete
  Proofs.SingleDomains Proofs.NaiveProofs Proofs.StringRun Proofs.MatrixRun Proofs.MatrixSingle.
Local Open Scope Z_scope.

Section AnyOrder.
  Variable p : mpattern.
  Variable cs : list mconstraint.
  Hypothesis Hsame : forall c, In c cs <-> In c (m_cvec p).

  Theorem m_single_sound_any h fuel r :
    single matrix_dom fuel cs h = Ok r ->
    forall m, In m r -> exists s a b, m = MBound s a b /\ occ_matrix p h s.
  Proof.
    intros S m Hin. unfold single, single_ext in S.
    destruct (requested matrix_dom fuel [] cs) as [reqk| |] eqn:Rq; cbn in S; try discriminate.
    destruct (m_requested_good _ _ _ Rq) as [Hg Hc].
    assert (Hcov : forall c, In c cs -> incl (cargs c) reqk).
    { intros c Hc' k Hk. apply Hc. apply in_flat_map. eauto. }
    destruct (single_loop_from_empty_sound matrix_dom m_inv m_goodb matrix_lawful
                cs reqk Hg Hcov h fuel r S m Hin) as [Iv [Hall _]].
    assert (Hall' : forall c, In c (m_cvec p) -> holds matrix_dom h c m).
    { intros c Hc'. apply Hall. now apply Hsame. }
    destruct (m_constraints_sound p h m Iv Hall') as [s [a [b [-> Ho]]]].
    exists s, a, b. auto.
  Qed.

  Theorem m_single_complete_any h fuel r s :
    single matrix_dom fuel cs h = Ok r -> occ_matrix p h s -> exists a b, In (MBound s a b) r.
  Proof.
    intros S [Hs Hocc]. unfold single, single_ext in S.
    destruct (requested matrix_dom fuel [] cs) as [reqk| |] eqn:Rq; cbn [rbind] in S; try discriminate.
    destruct (m_requested_good _ _ _ Rq) as [Hg Hc]. cbn [app] in Hc.
    assert (Hv : forall d, In d cs -> mval_of h s d = true).
    { assert (Hall : forallb (cvalb (m_char_of h s)) (m_cvec p) = true).
      { apply m_cvec_occ. split; [now apply OccProofs.occ_env_iff|]. intros _.
        rewrite m_char_of_mpos, (mpos_nn s (0, 0)) by (unfold nn; cbn; lia).
        unfold kpos. cbn. rewrite !N.add_0_r. destruct s. exact Hs. }
      rewrite forallb_forall in Hall. intros d Hd. rewrite mval_cvalb. apply Hall. now apply Hsame. }
    pose proof (m_cvec_nonempty p) as Hn.
    assert (Hex : exists c k, In c cs /\ In k (cargs c)).
    { destruct (m_cvec p) as [|c cl] eqn:Ec; [contradiction|]. exists c.
      assert (Hc0 : In c (m_cvec p)) by (rewrite Ec; now left).
      pose proof (m_cvec_args_nonempty p c Hc0) as Hargs. destruct (cargs c) as [|k ks] eqn:Ea; [contradiction|].
      exists k. split; [apply Hsame; now left|]. now left. }
    destruct Hex as [c0 [k0 [Hc0 Hk0]]].
    assert (Hrne : reqk <> []).
    { intros ->. apply (Hc k0). apply in_flat_map. exists c0. auto. }
    assert (Hrk : forall k, In k reqk -> (exists c, In c cs /\ In k (cargs c)) \/ k = (0, 0)).
    { intros k Hk. unfold requested in Rq. cbn [app] in Rq.
      destruct (m_amb_spec _ _ _ Rq) as [Hk1 _]. destruct (Hk1 k Hk) as [Hin| ->]; [left|now right].
      apply in_flat_map in Hin as [c [Hc1 Hc2]]. eauto. }
    assert (Hnn : forall k, In k reqk -> nn k).
    { intros k Hk. destruct (Hrk k Hk) as [[c [Hc1 Hc2]]| ->]; [eapply m_cvec_keys_nn; [apply Hsame; exact Hc1|exact Hc2]|unfold nn; cbn; lia]. }
    assert (Hoff : forall k, In k reqk -> offb h s k = true).
    { intros k Hk. destruct (Hrk k Hk) as [[c [Hc1 Hc2]]| ->]; [|now apply offb_start].
      apply (mval_args_offered h s c k (Hv c Hc1) Hc2). eapply m_cvec_keys_nn; [apply Hsame; exact Hc1|exact Hc2]. }
    destruct (single_loop_complete matrix_dom h reqk (Qm s) _ _ _ _ S) as [_ Hq].
    destruct (Hq cs MUnbound (or_introl eq_refl)) as [m' [Hm' [a [b ->]]]].
    - apply (m_derivable_all h s Hs reqk Hg Hrne Hnn Hoff).
      + intros c Hc1. split; [now apply Hv|]. split; [apply (m_cvec_args_nonempty p); now apply Hsame|].
        intros k Hk. eapply m_cvec_keys_nn; [apply Hsame; exact Hc1|exact Hk].
      + now left.
      + intros E. exfalso. subst cs. destruct Hc0.
    - exists a, b. exact Hm'.
  Qed.

  Theorem m_single_exact_any h fuel r :
    single matrix_dom fuel cs h = Ok r ->
    (forall m, In m r -> exists s a b, m = MBound s a b /\ occ_matrix p h s)
    /\ (forall s, occ_matrix p h s <-> exists a b, In (MBound s a b) r).
  Proof.
    intros S. split; [exact (m_single_sound_any h fuel r S)|].
    intros s. split.
    - intros O. eapply m_single_complete_any; eauto.
    - intros [a [b Hin]]. destruct (m_single_sound_any h fuel r S _ Hin) as [s' [a' [b' [E O]]]].
      inversion E; subst. exact O.
  Qed.
End AnyOrder.
