(** The harness-defined table domain is lawful; an always-true constraint needs no
    fact; hence the generic soundness theorem of the traversal applies to the
    automata the builder produces for it (exotic constraint trees, multi-valued
    keys, extra required bindings). *)
From PM Require Import Model.Prelude Model.Domain Model.Constraint Model.BindMaps Model.Automaton Model.Traversal
  Model.DomTable Cert.LabCheck Proofs.BindMapProofs Proofs.RunSound.
Local Open Scope N_scope.

Definition t_atoms (c : constraint N tpred) : list (constraint N tpred) :=
  match cpred c, cargs c with
  | TAlways, [] => []
  | _, _ => [c]
  end.

Lemma tpred_eqb_eq a b : tpred_eqb a b = true <-> a = b.
Proof.
  destruct a, b; cbn; try (split; [discriminate|intros X; inversion X]); try tauto.
  - rewrite N.eqb_eq. split; [now intros ->|intros X; now inversion X].
  - rewrite Nat.eqb_eq. split; [now intros ->|intros X; now inversion X].
Qed.

Lemma table_dom_eq sch : DomEq (table_dom sch).
Proof. constructor; cbn; [apply N.eqb_eq|apply N.eqb_eq|apply tpred_eqb_eq]. Qed.

Theorem table_lawful sch : Lawful (table_dom sch) (fun _ _ => True) (fun _ => true).
Proof.
  constructor; cbn; auto.
  - intros m k v m' B k' v' G. unfold tbind in B. unfold tget in *.
    destruct (abind_get N.eqb N.eqb N.eqb_eq m k v m' B) as [Hk Ho].
    destruct (N.eqb_spec k' k) as [->|Hne].
    + destruct (proj1 (abind_ok_iff N.eqb N.eqb N.eqb_eq m k v) (ex_intro _ m' B)) as [C|C]; [congruence|].
      rewrite C in G. inversion G; subst. exact Hk.
    + rewrite Ho; auto.
  - intros h ks m m' _ _ R. inversion R; subst. split; auto. intros k Hk. unfold tget.
    rewrite (aretain_get N.eqb N.eqb_eq ks m k). rewrite (proj2 (memb_in N.eqb N.eqb_eq k ks) Hk). reflexivity.
Qed.

Lemma t_atoms_sound sch h (c : constraint N tpred) m :
  (forall a, In a (t_atoms c) -> holds (table_dom sch) h a m) -> holds (table_dom sch) h c m.
Proof.
  unfold t_atoms. destruct c as [p args]. cbn [cpred cargs].
  destruct p; try (intros Hh; apply Hh; now left).
  destruct args; [|intros Hh; apply Hh; now left].
  intros _. exists []. split; reflexivity.
Qed.

Lemma t_atoms_complete sch h (c : constraint N tpred) m :
  holds (table_dom sch) h c m -> forall a, In a (t_atoms c) -> holds (table_dom sch) h a m.
Proof.
  unfold t_atoms. destruct c as [p args]. cbn [cpred cargs].
  destruct p; try (intros Hh a [<-|[]]; exact Hh).
  destruct args; [intros _ a []|intros Hh a [<-|[]]; exact Hh].
Qed.

Theorem table_run_sound sch (A : automaton N tpred) (L : labelling) (cs : list (list (constraint N tpred))) :
  lab_ok (table_dom sch) (fun _ => true) t_atoms A L cs = true ->
  forall (h : thost) (fuel : nat) (ms : list (N * tmap)),
    run (table_dom sch) fuel A h = Ok ms ->
    forall pm, In pm ms ->
      exists cp, nth_error cs (N.to_nat (fst pm)) = Some cp
                 /\ forall c, In c cp -> holds (table_dom sch) h c (snd pm).
Proof.
  intros C h fuel ms R pm Hin.
  exact (proj2 (run_sound (table_dom sch) (table_dom_eq sch) (fun _ _ => True) (fun _ => true) t_atoms (table_lawful sch)
                  (t_atoms_sound sch) (t_atoms_complete sch) A L cs C h fuel ms R pm Hin)).
Qed.
