(** Abstract-level equivalence (C03/C04/C06 core): on an automaton that passes
    both certificates, a pattern is accepted under a valuation exactly when all
    of its constraints are true under it — whatever the other patterns and
    whatever the heuristic that shaped the automaton. *)
From PM Require Import Model.Prelude Model.Domain Model.Automaton
  Cert.LabCheck Cert.WinCheck Proofs.RunSound Proofs.WinSound.

Section AbsEquiv.
  Context {K V M H P : Type} (D : DomOps K V M H P) (E : DomEq D).
  Notation C := (constraint K P).
  Variable goodb : list K -> bool.
  Variable atoms : C -> list C.
  Variable entails refutes : list C -> C -> bool.
  Variable v : C -> bool.
  Hypothesis atoms_v_sound : forall c, (forall a, In a (atoms c) -> v a = true) -> v c = true.
  Hypothesis atoms_v_complete : forall c, v c = true -> forall a, In a (atoms c) -> v a = true.
  Hypothesis entails_sound : forall cp c, entails cp c = true -> (forall d, In d cp -> v d = true) -> v c = true.
  Hypothesis refutes_sound : forall cp c, refutes cp c = true -> (forall d, In d cp -> v d = true) -> v c = false.

  Variable A : automaton K P.
  Variable L : labelling (K := K) (P := P).
  Variable cs : list (list C).
  Hypothesis CERT : lab_ok D goodb atoms A L cs = true.

  Lemma areach_facts s : areach v A s -> forall f, In f (lab_get L s) -> v f = true.
  Proof.
    induction 1 as [|s st cts c t Hr IH G CT Hin Hv|s st cts t Hr IH G CT FN Hd]; intros f Hf.
    - unfold lab_ok in CERT. apply andb_true_iff in CERT as [C0 _].
      destruct (lab_get L (au_root A)); [destruct Hf|discriminate].
    - destruct (get_state_ok D goodb atoms A L cs CERT _ _ G) as [Hid SO]. subst s.
      unfold state_ok in SO. apply andb_true_iff in SO as [_ SO]. rewrite CT in SO.
      destruct (eps_targets st); [|discriminate].
      apply andb_true_iff in SO as [SO _]. apply andb_true_iff in SO as [SC _].
      rewrite forallb_forall in SC. specialize (SC _ Hin). cbn in SC.
      unfold edge_ok in SC. rewrite forallb_forall in SC. specialize (SC _ Hf).
      apply andb_true_iff in SC as [Src _]. apply orb_true_iff in Src as [Src|Src].
      + apply (cmem_in D E) in Src. auto.
      + apply (cmem_in D E) in Src. eapply atoms_v_complete; eauto.
    - destruct (get_state_ok D goodb atoms A L cs CERT _ _ G) as [Hid SO]. subst s.
      unfold state_ok in SO. apply andb_true_iff in SO as [_ SO]. rewrite CT in SO.
      destruct (eps_targets st) as [ets|] eqn:ET; [|discriminate].
      apply andb_true_iff in SO as [SO _]. apply andb_true_iff in SO as [_ SE].
      pose proof (eps_targets_fail _ _ _ ET FN) as Ht.
      rewrite forallb_forall in SE. specialize (SE _ Ht).
      unfold edge_ok in SE. rewrite forallb_forall in SE. specialize (SE _ Hf).
      apply andb_true_iff in SE as [Src _]. apply orb_true_iff in Src as [Src|Src]; [|discriminate].
      apply (cmem_in D E) in Src. auto.
  Qed.

  (** soundness, abstract level: accepted => all constraints of the pattern true *)
  Theorem accepted_constraints_true p :
    aaccepts v A p -> exists cp, nth_error cs (N.to_nat p) = Some cp /\ forall c, In c cp -> v c = true.
  Proof.
    intros [s [st [Hr [G Hp]]]].
    destruct (get_state_ok D goodb atoms A L cs CERT _ _ G) as [Hid SO]. subst s.
    unfold state_ok in SO. apply andb_true_iff in SO as [_ SO].
    destruct (cons_transitions st); try discriminate. destruct (eps_targets st); [|discriminate].
    apply andb_true_iff in SO as [_ SA]. rewrite forallb_forall in SA.
    apply in_map_iff in Hp as [[pid keys] [Hpid Hin]]. cbn in Hpid. subst pid.
    specialize (SA _ Hin). unfold accept_ok in SA. cbn in SA. apply andb_true_iff in SA as [_ SA].
    destruct (nth_error cs (N.to_nat p)) as [cp|]; [|discriminate].
    exists cp. split; auto. intros c Hc. rewrite forallb_forall in SA. specialize (SA _ Hc).
    apply andb_true_iff in SA as [_ Hat]. rewrite forallb_forall in Hat.
    apply atoms_v_sound. intros a0 Ha. specialize (Hat _ Ha). apply (cmem_in D E) in Hat.
    eapply areach_facts; eauto.
  Qed.

  (** both certificates: acceptance is exactly truth of the pattern's constraints *)
  Theorem accepts_iff present i cp :
    cert_complete entails refutes A cs present = true ->
    nth_error cs i = Some cp -> nth_error present i = Some true ->
    (aaccepts v A (N.of_nat i) <-> forall c, In c cp -> v c = true).
  Proof.
    intros CC Hcs Hpr. split.
    - intros Ha. destruct (accepted_constraints_true _ Ha) as [cp' [Hn Hall]].
      rewrite Nat2N.id in Hn. rewrite Hcs in Hn. inversion Hn; subst. exact Hall.
    - intros Hall. eapply cert_complete_sound; eauto.
  Qed.
End AbsEquiv.
