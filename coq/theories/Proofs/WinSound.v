(** Soundness of the completeness certificate w.r.t. the abstract semantics. *)
From PM Require Import Model.Prelude Model.Domain Model.Automaton Cert.WinCheck.

Section WinSound.
  Context {K V M H P : Type} (D : DomOps K V M H P).
  Notation C := (constraint K P).
  Variable entails : list C -> C -> bool.
  Variable refutes : list C -> C -> bool.
  Variable v : C -> bool.
  Hypothesis entails_sound : forall cp c, entails cp c = true -> (forall d, In d cp -> v d = true) -> v c = true.
  Hypothesis refutes_sound : forall cp c, refutes cp c = true -> (forall d, In d cp -> v d = true) -> v c = false.

  Theorem win_sound (A : automaton K P) : forall fuel cp p s,
    win entails refutes fuel A cp p s = true ->
    (forall d, In d cp -> v d = true) -> areach v A s -> aaccepts v A p.
  Proof.
    induction fuel as [|f IH]; intros cp p s Hw Hcp Hr; cbn [win] in Hw; [discriminate|].
    destruct (get_state A s) as [st| |] eqn:Hg; try discriminate.
    apply orb_true_iff in Hw as [Hw|Hw].
    - apply (memb_in N.eqb N.eqb_eq) in Hw. exists s, st. auto.
    - destruct (cons_transitions st) as [cts| |] eqn:CT; try discriminate.
      apply orb_true_iff in Hw as [Hw|Hw].
      + apply existsb_exists in Hw as [[c t] [Hin Hct]]. cbn in Hct.
        apply andb_true_iff in Hct as [He Hwt].
        eapply IH; eauto. eapply ar_cons; eauto.
      + destruct (fail_next_state st) as [[t|]| |] eqn:FN; try discriminate.
        apply andb_true_iff in Hw as [Hwt Hd].
        destruct (forallb (fun ct => negb (v (fst ct))) cts) eqn:Hnone.
        * eapply IH; eauto. eapply ar_eps; eauto.
        * apply orb_true_iff in Hd as [Hd|Hd].
          -- eapply IH; eauto. eapply ar_eps; eauto. left. now apply negb_true_iff in Hd.
          -- assert (exists ct, In ct cts /\ v (fst ct) = true) as [[c t'] [Hin Hv]].
             { clear - Hnone. induction cts as [|x l IHl]; cbn in Hnone; [discriminate|].
               apply andb_false_iff in Hnone as [Hx|Hx].
               - exists x; split; [now left|]. now apply negb_false_iff in Hx.
               - destruct (IHl Hx) as [y [? ?]]. exists y; split; [now right|auto]. }
             rewrite forallb_forall in Hd. specialize (Hd _ Hin). cbn in Hd, Hv.
             apply orb_true_iff in Hd as [Hd|Hd].
             ++ rewrite (refutes_sound _ _ Hd Hcp) in Hv. discriminate.
             ++ eapply IH; eauto. eapply ar_cons; eauto.
  Qed.

  Lemma combine_seq_in {X} (l : list X) i x :
    nth_error l i = Some x -> In (i, x) (combine (seq 0 (length l)) l).
  Proof.
    assert (G : forall start, nth_error l i = Some x -> In (start + i, x) (combine (seq start (length l)) l)).
    { revert i. induction l as [|y l IHl]; intros i start Hn; destruct i; cbn in *; try discriminate.
      - inversion Hn; subst. left. f_equal. lia.
      - right. replace (start + S i) with (S start + i) by lia. apply IHl. exact Hn. }
    intros Hn. apply (G 0 Hn).
  Qed.

  (** every present pattern all of whose constraints are true is accepted *)
  Theorem cert_complete_sound (A : automaton K P) cs present i cp :
    cert_complete entails refutes A cs present = true ->
    nth_error cs i = Some cp -> nth_error present i = Some true ->
    (forall d, In d cp -> v d = true) -> aaccepts v A (N.of_nat i).
  Proof.
    unfold cert_complete. intros Hc Hcs Hpr Hcp.
    rewrite forallb_forall in Hc.
    assert (Hin : In (i, (cp, true)) (combine (seq 0 (length cs)) (combine cs present))).
    { assert (Hn : nth_error (combine cs present) i = Some (cp, true)).
      { clear - Hcs Hpr. revert i present Hcs Hpr.
        induction cs as [|c cs IHc]; intros [|i] [|b present] Hcs Hpr; cbn in *; try discriminate.
        - inversion Hcs; inversion Hpr; subst. reflexivity.
        - apply IHc; auto. }
      assert (Hlen : length (combine cs present) <= length cs) by (rewrite combine_length; lia).
      pose proof (combine_seq_in _ _ _ Hn) as Hx.
      (* seq over the shorter list is a prefix of seq over cs *)
      clear - Hx Hlen.
      remember (combine cs present) as l. clear Heql.
      assert (G : forall start n, length l <= n ->
                 forall y, In y (combine (seq start (length l)) l) -> In y (combine (seq start n) l)).
      { clear. induction l as [|z l IHl]; intros start n Hn y Hy; cbn in *; [destruct Hy|].
        destruct n; [lia|]. cbn. destruct Hy as [<-|Hy]; [now left|]. right. apply IHl; auto. lia. }
      apply (G 0 (length cs) Hlen). exact Hx. }
    specialize (Hc _ Hin).
    change (win entails refutes (S (length (au_states A))) A cp (N.of_nat i) (au_root A) = true) in Hc.
    eapply win_sound; eauto. constructor.
  Qed.
End WinSound.
