(** [wf_check] establishes the propositions of C09. *)
From PM Require Import Model.Prelude Model.Domain Model.Automaton Cert.WfCheck.

Section WfSound.
  Context {K V M H P : Type} (D : DomOps K V M H P) (E : DomEq D).

  Let kmem_in := memb_in (keqb D) (keqb_spec D E).
  Let kmem_not_in := memb_not_in (keqb D) (keqb_spec D E).
  Definition Nmem_in := memb_in N.eqb N.eqb_eq.

  Lemma dedup_in {X} (eqb : X -> X -> bool) (l : list X) x : In x (dedup eqb l) -> In x l.
  Proof.
    induction l as [|y l IH]; cbn; auto.
    destruct (memb eqb y l); cbn; intros Hin; [right; auto|].
    destruct Hin as [<-|Hin]; auto.
  Qed.

  Lemma prereq_orderedb_sound (l : list K) : forall seen,
    prereq_orderedb D seen l = true ->
    NoDup l /\ (forall k, In k l -> ~ In k seen)
    /\ forall l1 k l2, l = l1 ++ k :: l2 -> forall r, In r (req D k) -> In r seen \/ In r l1.
  Proof.
    induction l as [|k l IH]; intros seen Hb; cbn in Hb.
    - split; [constructor|]. split; [intros k []|].
      intros l1 k l2 Eq. destruct l1; discriminate.
    - apply andb_true_iff in Hb as [Hb H3]. apply andb_true_iff in Hb as [H1 H2].
      apply negb_true_iff in H1. apply kmem_not_in in H1.
      destruct (IH _ H3) as [Hnd [Hdis Hord]]. split; [|split].
      + constructor; auto. intros C. apply (Hdis k C). now left.
      + intros k' [<-|Hin]; auto. intros C. apply (Hdis k' Hin). now right.
      + intros l1 k' l2 Eq r Hr. destruct l1 as [|x l1]; cbn in Eq; inversion Eq; subst.
        * left. rewrite forallb_forall in H2. apply kmem_in. auto.
        * destruct (Hord l1 k' l2 eq_refl r Hr) as [[<-|Hs]|Hl]; [right; now left|now left|right; now right].
  Qed.

  Lemma prereq_orderedb_ok (l : list K) : prereq_orderedb D [] l = true -> prereq_ordered D l.
  Proof.
    intros Hb. destruct (prereq_orderedb_sound l [] Hb) as [Hnd [_ Hord]]. split; auto.
    intros l1 k l2 Eq r Hr. destruct (Hord l1 k l2 Eq r Hr) as [[]|]; auto.
  Qed.

  Lemma find_edge_in (l : list (edge K P)) id e : find_edge l id = Some e -> In e l /\ e_id e = id.
  Proof.
    induction l as [|x l IH]; cbn; [discriminate|].
    destruct (N.eqb (e_id x) id) eqn:Eq.
    - intros X. inversion X; subst. apply N.eqb_eq in Eq. auto.
    - intros X. destruct (IH X). auto.
  Qed.

  Lemma reach_iter_sound (A : automaton K P) n : forall R,
    (forall x, In x R -> reachable A x) -> forall x, In x (reach_iter n A R) -> reachable A x.
  Proof.
    induction n as [|n IH]; intros R HR x Hx; cbn in Hx; auto.
    apply (IH _) in Hx; auto.
    intros y Hy. apply dedup_in in Hy. unfold step_reach in Hy.
    apply in_app_or in Hy as [Hy|Hy]; auto.
    apply in_flat_map in Hy as [s [Hs Hy]].
    destruct (memb N.eqb (a_id s) R) eqn:Mm; [|destruct Hy].
    apply Nmem_in in Mm. apply in_map_iff in Hy as [e [<- He]].
    eapply reach_step; eauto.
  Qed.

  Lemma order_ok_sound (s : astate K P) : order_ok s = true ->
    NoDup (map (@e_id K P) (a_out s))
    /\ (NoDup (a_corder s) /\ forall id, In id (a_corder s) <->
          exists e, In e (a_out s) /\ e_id e = id /\ e_cons e <> None)
    /\ (NoDup (a_eorder s) /\ forall id, In id (a_eorder s) <->
          exists e, In e (a_out s) /\ e_id e = id /\ e_cons e = None).
  Proof.
    unfold order_ok. intros Hb.
    apply andb_true_iff in Hb as [Hb H6]. apply andb_true_iff in Hb as [Hb H5].
    apply andb_true_iff in Hb as [Hb H4]. apply andb_true_iff in Hb as [Hb H3].
    apply andb_true_iff in Hb as [H1 H2].
    apply (nodupb_NoDup N.eqb N.eqb_eq) in H1, H2, H3.
    rewrite forallb_forall in H4, H5, H6.
    split; [exact H1|]. split; (split; [assumption|]); intros id; split.
    - intros Hin. specialize (H4 _ Hin).
      destruct (find_edge (a_out s) id) as [e|] eqn:F; [|discriminate].
      apply find_edge_in in F as [He Hid]. exists e. split; auto. split; auto.
      destruct e as [i t [c|]]; cbn in *; [discriminate|discriminate].
    - intros [e [He [Hid Hc]]]. specialize (H6 _ He).
      destruct (e_cons e); [|contradiction]. apply Nmem_in in H6. now subst.
    - intros Hin. specialize (H5 _ Hin).
      destruct (find_edge (a_out s) id) as [e|] eqn:F; [|discriminate].
      apply find_edge_in in F as [He Hid]. exists e. split; auto. split; auto.
      destruct e as [i t [c|]]; cbn in *; [discriminate|reflexivity].
    - intros [e [He [Hid Hc]]]. specialize (H6 _ He).
      rewrite Hc in H6. apply Nmem_in in H6. now subst.
  Qed.

  Theorem wf_check_sound (A : automaton K P) rk ids :
    wf_check D A rk ids = true -> WF D A ids.
  Proof.
    unfold wf_check. intros Hb.
    apply andb_true_iff in Hb as [Hb H5]. apply andb_true_iff in Hb as [Hb H4].
    apply andb_true_iff in Hb as [Hb H3]. apply andb_true_iff in Hb as [H1 H2].
    apply (nodupb_NoDup N.eqb N.eqb_eq) in H1. apply Nmem_in in H2.
    rewrite forallb_forall in H3.
    assert (SW : forall s, In s (au_states A) ->
      order_ok s = true /\ length (a_eorder s) <= 1
      /\ (forall e, In e (a_out s) -> e_target e <> a_id s /\ In (e_target e) (state_ids A)
                                     /\ rank_of rk (a_id s) < rank_of rk (e_target e))
      /\ prereq_orderedb D [] (a_scope s) = true
      /\ (forall pk, In pk (a_matches s) -> prereq_orderedb D [] (snd pk) = true)
      /\ (forall e c, In e (a_out s) -> e_cons e = Some c -> incl (cargs c) (a_scope s))).
    { intros s Hs. specialize (H3 _ Hs). unfold state_wf in H3.
      apply andb_true_iff in H3 as [X S6]. apply andb_true_iff in X as [X S5].
      apply andb_true_iff in X as [X S4]. apply andb_true_iff in X as [X S3].
      apply andb_true_iff in X as [S1 S2].
      rewrite forallb_forall in S3, S5, S6.
      split; [exact S1|]. split; [now apply Nat.leb_le|]. split; [|split; [exact S4|split; [exact S5|]]].
      - intros e He. specialize (S3 _ He).
        apply andb_true_iff in S3 as [Y Z]. apply andb_true_iff in Y as [Y1 Y2].
        apply negb_true_iff in Y1. apply N.eqb_neq in Y1. apply Nmem_in in Y2.
        apply Nat.ltb_lt in Z. auto.
      - intros e c He Hc. specialize (S6 _ He). rewrite Hc in S6.
        apply inclb_incl in S6; auto. apply (keqb_spec D E). }
    constructor; auto.
    - exists (rank_of rk). intros s e Hs He. apply (SW s Hs). exact He.
    - intros s Hs. apply (inclb_incl N.eqb N.eqb_eq) in H4.
      eapply reach_iter_sound; [|apply H4; unfold state_ids; now apply in_map].
      intros x [<-|[]]. constructor.
    - intros s e Hs He. apply (SW s Hs). exact He.
    - intros s Hs. apply (SW s Hs).
    - intros s e Hs He. apply (SW s Hs). exact He.
    - intros s Hs. apply order_ok_sound. apply (SW s Hs).
    - intros s Hs. apply order_ok_sound. apply (SW s Hs).
    - intros s Hs. apply order_ok_sound. apply (SW s Hs).
    - rewrite forallb_forall in H5. intros p Hp. specialize (H5 _ Hp).
      apply existsb_exists in H5 as [s [Hs Hm]]. apply Nmem_in in Hm. eauto.
    - intros s Hs. apply prereq_orderedb_ok. apply (SW s Hs).
    - intros s pk Hs Hpk. apply prereq_orderedb_ok. apply (SW s Hs). exact Hpk.
    - intros s e c Hs He Hc. destruct (SW s Hs) as [_ [_ [_ [_ [_ X]]]]]. eapply X; eauto.
  Qed.
End WfSound.
