(** Matrices: the single-pattern matcher reports every occurrence (C05,
    completeness half), hence exactly the occurrences. *)
From PM Require Import Model.Prelude Model.Domain Model.Constraint Model.BindAll Model.Scheme Model.Matchers
  Model.BindMaps Model.DomString Model.DomMatrix Spec.Extends Spec.TopoSpec Spec.Occ Cert.CharCert
  Proofs.SchemeProofs Proofs.BindAllProofs Proofs.BindMapProofs Proofs.BindMapMatrixProofs Proofs.RunSound
  Proofs.LawfulDomains Proofs.CellsProofs Proofs.OccMatrix Proofs.OccProofs Proofs.SingleSound Proofs.SingleComplete
  Proofs.SingleDomains Proofs.NaiveProofs Proofs.StringRun Proofs.MatrixRun.
Local Open Scope Z_scope.

(** keys of the generated constraints are keys of pattern cells *)
Lemma gloop_keys {K} (Pk : K -> Prop) cells : forall env cs env',
  @gloop K cells env = (cs, env') ->
  (forall k cv, In (k, cv) cells -> Pk k) -> (forall x k, In (x, k) env -> Pk k) ->
  (forall c k, In c cs -> In k (cargs c) -> Pk k) /\ (forall x k, In (x, k) env' -> Pk k).
Proof.
  induction cells as [|[k [l|y]] r IH]; intros env cs env' G Hc He; cbn in G.
  - inversion G; subst. split; [intros c k []|exact He].
  - destruct (gloop r env) as [cs0 e0] eqn:G0. inversion G; subst.
    destruct (IH env cs0 env' G0 (fun k' cv H => Hc k' cv (or_intror H)) He) as [I1 I2]. split; auto.
    intros c k' [<-|Hin] Hk; [|eauto]. cbn in Hk. destruct Hk as [<-|[]]. apply (Hc k (Lit l)). now left.
  - destruct (glookup env y) as [f|] eqn:Ly.
    + destruct (gloop r env) as [cs0 e0] eqn:G0. inversion G; subst.
      destruct (IH env cs0 env' G0 (fun k' cv H => Hc k' cv (or_intror H)) He) as [I1 I2]. split; auto.
      intros c k' [<-|Hin] Hk; [|eauto]. cbn in Hk. destruct Hk as [<-|[<-|[]]].
      * apply (Hc k (Var y)). now left.
      * apply (He y f). clear - Ly. induction env as [|[z p] env IHe]; cbn in Ly; [discriminate|].
        destruct (N.eqb_spec y z); [inversion Ly; subst; now left|right; auto].
    + apply (IH ((y, k) :: env) cs env' G (fun k' cv H => Hc k' cv (or_intror H))).
      intros x k' [E|Hin]; [inversion E; subst; apply (Hc k' (Var x)); now left|eauto].
Qed.

Lemma m_enum_row_nn row : forall i j k cv, 0 <= i -> 0 <= j -> In (k, cv) (m_enum_row row i j) -> nn k.
Proof.
  induction row as [|[cv0|] row IH]; intros i j k cv Hi Hj Hin; cbn in Hin; [destruct Hin| |].
  - destruct Hin as [E|Hin]; [inversion E; subst; unfold nn; cbn; lia|]. apply (IH i (j + 1) k cv Hi ltac:(lia) Hin).
  - apply (IH i (j + 1) k cv Hi ltac:(lia) Hin).
Qed.

Lemma m_enum_nn p : forall i k cv, 0 <= i -> In (k, cv) (m_enum p i) -> nn k.
Proof.
  induction p as [|row p IH]; intros i k cv Hi Hin; cbn in Hin; [destruct Hin|].
  apply in_app_or in Hin as [Hin|Hin]; [apply (m_enum_row_nn row i 0 k cv Hi ltac:(lia) Hin)|apply (IH (i + 1) k cv ltac:(lia) Hin)].
Qed.

Lemma m_cvec_keys_nn p c k : In c (m_cvec p) -> In k (cargs c) -> nn k.
Proof.
  rewrite m_cvec_unfold. destruct (gloop (m_enum p 0) []) as [cs env] eqn:G. cbn zeta.
  destruct (gloop_keys nn _ _ _ _ G (fun k' cv H => m_enum_nn p 0 k' cv ltac:(lia) H) (fun x k' (H : In (x, k') []) => match H with end)) as [H1 H2].
  intros Hc Hk.
  assert (Hall : forall c0, In c0 (cs ++ m_extras cs env) -> forall k0, In k0 (cargs c0) -> nn k0).
  { intros c0 Hc0 k0 Hk0. apply in_app_or in Hc0 as [Hc0|Hc0]; [eauto|].
    unfold m_extras in Hc0. apply in_map_iff in Hc0 as [pos [<- Hpos]]. apply filter_In in Hpos as [Hpos _].
    apply in_map_iff in Hpos as [[x k1] [E Hx]]. cbn in E. subst k1. apply in_rev in Hx.
    cbn in Hk0. destruct Hk0 as [<-|[<-|[]]]; eapply H2; eauto. }
  destruct (cs ++ m_extras cs env) as [|c1 l] eqn:E.
  - destruct Hc as [<-|[]]. cbn in Hk. destruct Hk as [<-|[<-|[]]]; unfold nn; cbn; lia.
  - eapply Hall; eauto.
Qed.

Lemma m_closure key x : closure m_req (fun x => In x []) key x -> x = key \/ x = (0, 0).
Proof.
  induction 1 as [|k r Hc IH Hr _]; [now left|]. right.
  unfold m_req in Hr. destruct (mkey_eqb k (0, 0)); [destruct Hr|]. destruct Hr as [<-|[]]. reflexivity.
Qed.

Lemma m_amb_spec fuel args keys :
  amb matrix_dom fuel args = Ok keys ->
  (forall k, In k keys -> In k args \/ k = (0, 0)) /\ incl args keys /\ (forall x l, keys = x :: l -> x = (0, 0)).
Proof.
  intros A. unfold amb in A. change (keqb matrix_dom) with mkey_eqb in A. change (req matrix_dom) with m_req in A.
  destruct (all_missing_ok mkey_eqb m_req mkey_eqb_spec fuel args [] keys m_req_acyclic A) as [_ [Hin [Hpf _]]].
  split; [|split].
  - intros k Hk. apply Hin in Hk as [key [Hkey Hc]]. destruct (m_closure _ _ Hc) as [E|E]; subst; auto.
  - intros k Hk. apply Hin. exists k. split; auto. constructor. tauto.
  - intros x l ->. destruct (mkey_eqb x (0, 0)) eqn:E; [now apply mkey_eqb_spec|].
    specialize (Hpf [] x l eq_refl (0, 0)). cbn in Hpf. exfalso. apply Hpf; [|tauto].
    unfold m_req. rewrite E. now left.
Qed.

Section MatrixSingle.
  Variable h : mhost.
  Variable s : mval.
  Hypothesis Hs : cell_at h s <> None.
  Variable reqk : list mkey.
  Hypothesis Hgood : m_goodb reqk = true.
  Hypothesis Hne : reqk <> [].
  Hypothesis Hnn : forall k, In k reqk -> nn k.
  Hypothesis Hoff : forall k, In k reqk -> offb h s k = true.
  Definition Qm (m : mpm) : Prop := exists a b, m = MBound s a b.
  Notation deriv := (derivable matrix_dom h reqk Qm).

  Lemma m_single_step c rest m :
    anchm s m -> mval_of h s c = true -> cargs c <> [] -> (forall k, In k (cargs c) -> nn k) ->
    (forall a b, inbox (0, 0) a b -> deriv rest (MBound s a b)) -> deriv (c :: rest) m.
  Proof.
    intros Hm Hv Hargs Hcnn Hrest fuel keys cands ok Ak B Fs.
    destruct (m_amb_spec _ _ _ Ak) as [Hk1 [Hk2 Hk3]].
    assert (Hknn : forall k, In k keys -> nn k).
    { intros k Hk. destruct (Hk1 k Hk) as [Hin| ->]; [auto|unfold nn; cbn; lia]. }
    assert (Hoffk : forall k, In k keys -> offb h s k = true).
    { intros k Hk. destruct (Hk1 k Hk) as [Hin| ->]; [|now apply offb_start].
      eapply mval_args_offered; eauto. }
    assert (Hc : exists a b, inbox (0, 0) a b /\ In (MBound s a b) cands /\ forall k, In k keys -> inbox k a b).
    { apply bind_all_eq_spec in B. destruct Hm as [->|[a [b [-> W]]]].
      - destruct keys as [|x l] eqn:Ek.
        { exfalso. destruct (cargs c) as [|k0 ?]; [contradiction|]. apply (Hk2 k0). now left. }
        pose proof (Hk3 x l eq_refl) as ->.
        set (bx := m_extend h s l (0, 0) (0, 0)).
        assert (H00 : inbox (0, 0) (0, 0) (0, 0)) by (unfold inbox; cbn; lia).
        exists (fst bx), (snd bx). split; [now apply m_extend_mono|]. split.
        + apply (extend_rel matrix_dom h false ((0, 0) :: l) MUnbound cands _ B).
          apply ext_rel_munbound; [exact Hs|intros k Hk; apply Hknn; now right|right; intros k Hk; apply Hoffk; now right].
        + intros k [<-|Hk]; [now apply m_extend_mono|]. apply m_extend_covers; auto. apply Hoffk. now right.
      - set (bx := m_extend h s keys a b).
        exists (fst bx), (snd bx). split; [now apply m_extend_mono|]. split.
        + apply (extend_rel matrix_dom h false keys (MBound s a b) cands _ B).
          apply ext_rel_mbound; auto.
        + intros k Hk. apply m_extend_covers; auto. }
    destruct Hc as [a [b [W [Hin Hcov]]]].
    exists (MBound s a b). split; [|now apply Hrest].
    eapply filter_satb_fwd; [exact Fs|exact Hin|].
    apply (m_sat_of_mval h s c); auto.
    intros k Hk. rewrite mmget_box by auto. specialize (Hcov k (Hk2 k Hk)). apply in_box_iff in Hcov. now rewrite Hcov.
  Qed.

  Lemma m_single_finish a b : inbox (0, 0) a b -> deriv [] (MBound s a b).
  Proof.
    intros W bs bs' B Rt.
    set (missing := filter (is_unbound matrix_dom (MBound s a b)) reqk) in B.
    apply bind_all_eq_spec in B.
    set (bx := m_extend h s missing a b).
    assert (Hin : In (MBound s (fst bx) (snd bx)) bs).
    { apply (extend_rel matrix_dom h false missing (MBound s a b) bs _ B).
      apply ext_rel_mbound; auto.
      - intros k Hk. apply Hnn. unfold missing in Hk. apply filter_In in Hk. tauto.
      - right. intros k Hk. apply Hoff. unfold missing in Hk. apply filter_In in Hk. tauto. }
    destruct (rmapM_fwd _ _ _ _ Rt Hin) as [b' [Rb Hb']].
    assert (Wx : inbox (0, 0) (fst bx) (snd bx)) by now apply m_extend_mono.
    assert (Hca : anchm s (MBound s (fst bx) (snd bx))) by (right; eauto).
    destruct (m_retain_anch h _ _ _ s Hgood Rb Hca Hs) as [Hk [_ [Hbound _]]].
    destruct (Hbound ltac:(discriminate) Hne) as [a2 [b2 [-> W2]]].
    exists (MBound s a2 b2). split; [exact Hb'|]. split; [|now exists a2, b2].
    unfold all_bound. apply forallb_forall. intros k Hkin.
    change (mget matrix_dom (MBound s a2 b2) k) with (mmget (MBound s a2 b2) k). rewrite (Hk k Hkin).
    rewrite mmget_box by auto.
    assert (Hbx : inbox k (fst bx) (snd bx)).
    { destruct (is_unbound matrix_dom (MBound s a b) k) eqn:Eu.
      - apply m_extend_covers; [|now apply Hoff]. unfold missing. apply filter_In. auto.
      - apply m_extend_mono. unfold is_unbound in Eu.
        change (mget matrix_dom (MBound s a b) k) with (mmget (MBound s a b) k) in Eu. rewrite mmget_box in Eu by auto.
        destruct (in_box k a b) eqn:Bk; [now apply in_box_iff|discriminate]. }
    apply in_box_iff in Hbx. now rewrite Hbx.
  Qed.

  Lemma m_derivable_all cs : (forall c, In c cs -> mval_of h s c = true /\ cargs c <> [] /\ forall k, In k (cargs c) -> nn k) ->
    forall m, anchm s m -> (cs = [] -> exists a b, m = MBound s a b /\ inbox (0, 0) a b) -> deriv cs m.
  Proof.
    induction cs as [|c rest IH]; intros Hall m Hm Hnil.
    - destruct (Hnil eq_refl) as [a [b [-> W]]]. now apply m_single_finish.
    - destruct (Hall c (or_introl eq_refl)) as [Hv [Hargs Hcnn]].
      apply m_single_step; auto. intros a b W. apply IH.
      + intros c' Hc'. apply Hall. now right.
      + right. eauto.
      + intros _. eauto.
  Qed.
End MatrixSingle.

Theorem m_single_complete p h fuel r s :
  single matrix_dom fuel (m_cvec p) h = Ok r -> occ_matrix p h s ->
  exists a b, In (MBound s a b) r.
Proof.
  intros S [Hs Hocc]. unfold single, single_ext in S.
  destruct (requested matrix_dom fuel [] (m_cvec p)) as [reqk| |] eqn:Rq; cbn [rbind] in S; try discriminate.
  destruct (m_requested_good _ _ _ Rq) as [Hg Hc]. cbn [app] in Hc.
  assert (Hv : forall d, In d (m_cvec p) -> mval_of h s d = true).
  { assert (Hall : forallb (cvalb (m_char_of h s)) (m_cvec p) = true).
    { apply m_cvec_occ. split; [now apply OccProofs.occ_env_iff|]. intros _.
      rewrite m_char_of_mpos, (mpos_nn s (0, 0)) by (unfold nn; cbn; lia).
      unfold kpos. cbn. rewrite !N.add_0_r. destruct s. exact Hs. }
    rewrite forallb_forall in Hall. intros d Hd. rewrite mval_cvalb. auto. }
  pose proof (m_cvec_nonempty p) as Hn.
  assert (Hex : exists c k, In c (m_cvec p) /\ In k (cargs c)).
  { destruct (m_cvec p) as [|c cl] eqn:Ec; [contradiction|]. exists c.
    assert (Hc0 : In c (m_cvec p)) by (rewrite Ec; now left).
    pose proof (m_cvec_args_nonempty p c Hc0) as Hargs. destruct (cargs c) as [|k ks] eqn:Ea; [contradiction|].
    exists k. split; [now left|]. now left. }
  destruct Hex as [c0 [k0 [Hc0 Hk0]]].
  assert (Hrne : reqk <> []).
  { intros ->. apply (Hc k0). apply in_flat_map. exists c0. auto. }
  assert (Hrk : forall k, In k reqk -> (exists c, In c (m_cvec p) /\ In k (cargs c)) \/ k = (0, 0)).
  { intros k Hk. unfold requested in Rq. cbn [app] in Rq.
    destruct (m_amb_spec _ _ _ Rq) as [Hk1 _]. destruct (Hk1 k Hk) as [Hin| ->]; [left|now right].
    apply in_flat_map in Hin as [c [Hc1 Hc2]]. eauto. }
  assert (Hnn : forall k, In k reqk -> nn k).
  { intros k Hk. destruct (Hrk k Hk) as [[c [Hc1 Hc2]]| ->]; [eapply m_cvec_keys_nn; eauto|unfold nn; cbn; lia]. }
  assert (Hoff : forall k, In k reqk -> offb h s k = true).
  { intros k Hk. destruct (Hrk k Hk) as [[c [Hc1 Hc2]]| ->]; [|now apply offb_start].
    apply (mval_args_offered h s c k (Hv c Hc1) Hc2). eapply m_cvec_keys_nn; eauto. }
  destruct (single_loop_complete matrix_dom h reqk (Qm s) _ _ _ _ S) as [_ Hq].
  destruct (Hq (m_cvec p) MUnbound (or_introl eq_refl)) as [m' [Hm' [a [b ->]]]].
  - apply (m_derivable_all h s Hs reqk Hg Hrne Hnn Hoff).
    + intros c Hc1. split; [now apply Hv|]. split; [now apply (m_cvec_args_nonempty p)|].
      intros k Hk. eapply m_cvec_keys_nn; eauto.
    + now left.
    + intros E. contradiction.
  - exists a, b. exact Hm'.
Qed.

(** exactly the occurrences *)
Theorem m_single_exact p h fuel r :
  single matrix_dom fuel (m_cvec p) h = Ok r ->
  (forall m, In m r -> exists s a b, m = MBound s a b /\ occ_matrix p h s)
  /\ (forall s, occ_matrix p h s <-> exists a b, In (MBound s a b) r).
Proof.
  intros S. split.
  - intros m Hm. destruct (m_single_sound p h fuel r S m Hm) as [s [a [b [E [O _]]]]]. eauto.
  - intros s. split.
    + intros O. eapply m_single_complete; eauto.
    + intros [a [b Hin]]. destruct (m_single_sound p h fuel r S _ Hin) as [s' [a' [b' [E [O _]]]]].
      inversion E; subst. exact O.
Qed.

Theorem m_match_exists_exact p h fuel b :
  match_exists matrix_dom fuel (m_cvec p) h = Ok b ->
  (b = true <-> exists s, occ_matrix p h s).
Proof.
  intros Me. unfold match_exists in Me.
  destruct (single matrix_dom fuel (m_cvec p) h) as [r| |] eqn:S; cbn [rbind] in Me; try discriminate.
  destruct (m_single_exact p h fuel r S) as [H1 H2]. inversion Me; subst b. split.
  - destruct r as [|m r']; [discriminate|]. intros _. destruct (H1 m (or_introl eq_refl)) as [s [a [b [_ O]]]]. eauto.
  - intros [s O]. apply H2 in O as [a [b Hin]]. destruct r; [destruct Hin|reflexivity].
Qed.

Theorem m_naive_exact pats h fuel ms i p s :
  naive matrix_dom fuel (map m_cvec pats) h = Ok ms ->
  nth_error pats i = Some p ->
  ((exists a b, In (N.of_nat i, MBound s a b) ms) <-> occ_matrix p h s).
Proof.
  intros Nv Hp. pose proof (NaiveProofs.naive_spec matrix_dom fuel h _ _ Nv) as Sp. split.
  - intros [a [b Hin]]. apply Sp in Hin as [j [cs [rj [Hn [Sg [Hm Ej]]]]]].
    apply Nnat.Nat2N.inj in Ej. subst j. rewrite nth_error_map, Hp in Hn. inversion Hn; subst cs.
    apply (proj2 (m_single_exact p h fuel rj Sg)). eauto.
  - intros O.
    assert (Hs : exists rj, single matrix_dom fuel (m_cvec p) h = Ok rj).
    { clear Sp. unfold naive in Nv. revert Nv. generalize 0%N as i0. revert i ms Hp.
      induction pats as [|q pats IH]; intros i ms Hp i0 Nv; [destruct i; discriminate|].
      cbn in Nv. destruct (single matrix_dom fuel (m_cvec q) h) as [r1| |] eqn:Sg; cbn [rbind] in Nv; try discriminate.
      destruct (naive_from matrix_dom fuel (i0 + 1)%N (map m_cvec pats) h) as [rs| |] eqn:Nf; cbn [rbind] in Nv; try discriminate.
      destruct i as [|i']; cbn in Hp.
      - inversion Hp; subst. eauto.
      - eapply IH; eauto. }
    destruct Hs as [rj Sg]. destruct (proj1 (proj2 (m_single_exact p h fuel rj Sg) s) O) as [a [b Hin]].
    exists a, b. apply Sp. exists i, (m_cvec p), rj. split; [rewrite nth_error_map, Hp; reflexivity|]. auto.
Qed.
