(** A stronger reading of a constraint tree than the one C10 states: at the root
    only the first satisfied child (in the order of the child list) is followed;
    below the root every satisfied edge is followed.  (The traversal of a
    deterministic state follows every satisfied transition and only makes the
    fallback transition conditional, so C10 itself needs [faithful] only.  The
    stronger reading holds of the shipped trees because the children of their
    roots are mutually exclusive, or — powerset trees — because the subtree of the
    first satisfied child repeats the later ones; exclusivity at a deterministic
    state is what keeps the copies of the fallback state's successors from being
    reached through two transitions at once.) *)
From PM Require Import Model.Prelude Model.CTree Spec.TreeSem.

Section TreeDet.
  Context {C : Type} (v : C -> bool).

  Inductive dreach (T : ctree C) : nat -> Prop :=
  | dr_root : dreach T 0
  | dr_first root l1 c k l2 :
      nth_error (ct_nodes T) 0 = Some root -> tn_children root = l1 ++ (c, k) :: l2 ->
      v c = true -> (forall c' k', In (c', k') l1 -> v c' = false) -> dreach T k
  | dr_child n nd c m :
      n <> 0 -> dreach T n -> nth_error (ct_nodes T) n = Some nd -> In (c, m) (tn_children nd) ->
      v c = true -> dreach T m.

  Definition det_faithful (T : ctree C) (cs : list C) : Prop :=
    forall i, in_tree T i ->
      ((exists n, dreach T n /\ labelled T i n) <-> exists c, nth_error cs i = Some c /\ v c = true).

  (** no two children of the root are satisfied together *)
  Definition root_exclusive (T : ctree C) : Prop :=
    forall root l1 c1 k1 l2 c2 k2 l3,
      nth_error (ct_nodes T) 0 = Some root -> tn_children root = l1 ++ (c1, k1) :: l2 ++ (c2, k2) :: l3 ->
      v c1 = true -> v c2 = true -> False.

  Lemma dreach_treach T n : dreach T n -> treach v T n.
  Proof.
    induction 1 as [|root l1 c k l2 Hr E Hv _|n nd c m _ _ IH Hn Hin Hv]; [constructor| |].
    - eapply tr_child; [apply tr_root|exact Hr| |exact Hv]. rewrite E. apply in_or_app. right. now left.
    - eapply tr_child; eauto.
  Qed.

  Lemma treach_dreach T n : root_exclusive T -> treach v T n -> dreach T n.
  Proof.
    intros Hx. induction 1 as [|n nd c m _ IH Hn Hin Hv]; [constructor|].
    destruct (Nat.eq_dec n 0) as [->|Hn0]; [|eapply dr_child; eauto].
    apply in_split in Hin as [l1 [l2 E]]. eapply dr_first; [exact Hn|exact E|exact Hv|].
    intros c' k' Hin'. destruct (v c') eqn:Ev; [exfalso|reflexivity].
    apply in_split in Hin' as [la [lb E']]. rewrite E' in E. rewrite <- app_assoc in E. cbn [app] in E.
    eapply Hx; eauto.
  Qed.

  Theorem det_faithful_of_exclusive T cs : root_exclusive T -> faithful v T cs -> det_faithful T cs.
  Proof.
    intros Hx F i Hi. rewrite <- (F i Hi). split; intros [n [Hr Hl]]; exists n; split; auto.
    - now apply dreach_treach.
    - now apply treach_dreach.
  Qed.
End TreeDet.
