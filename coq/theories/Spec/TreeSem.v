(** Semantics of constraint trees (C10): a node is reachable under a valuation
    of the constraints when it is the root or a child, along an edge whose
    constraint is true, of a reachable node.  A tree is faithful for a list of
    constraints when, for every index that labels some node, a node with that
    label is reachable exactly when the constraint of that index is true. *)
From PM Require Import Model.Prelude Model.CTree.

Section TreeSem.
  Context {C : Type} (v : C -> bool).

  Inductive treach (T : ctree C) : nat -> Prop :=
  | tr_root : treach T 0
  | tr_child n nd c m :
      treach T n -> nth_error (ct_nodes T) n = Some nd -> In (c, m) (tn_children nd) ->
      v c = true -> treach T m.

  Definition labelled (T : ctree C) (i n : nat) : Prop :=
    exists nd, nth_error (ct_nodes T) n = Some nd /\ In i (tn_labels nd).

  Definition in_tree (T : ctree C) (i : nat) : Prop := exists n, labelled T i n.

  Definition faithful (T : ctree C) (cs : list C) : Prop :=
    forall i, in_tree T i ->
      ((exists n, treach T n /\ labelled T i n) <-> exists c, nth_error cs i = Some c /\ v c = true).

  Definition valid_indices (T : ctree C) (len : nat) : Prop := forall i, in_tree T i -> i < len.
End TreeSem.
