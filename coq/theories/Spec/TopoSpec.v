(** Specification vocabulary for C12: acyclic schemes, the set of missing keys,
    prerequisite-first lists.  No algorithm in here. *)
From PM Require Import Model.Prelude.

Section TopoSpec.
  Context {K : Type} (req : K -> list K).

  (** An indexing scheme is acyclic when prerequisites strictly decrease a rank. *)
  Definition acyclic : Prop :=
    exists rank : K -> nat, forall k r, In r (req k) -> rank r < rank k.

  (** Keys reachable from [key] through keys that are not known
      ("the requested key and its transitive prerequisites that are not in known"). *)
  Inductive closure (known : K -> Prop) (key : K) : K -> Prop :=
  | cl_self : ~ known key -> closure known key key
  | cl_step k r : closure known key k -> In r (req k) -> ~ known r -> closure known key r.

  Definition closure_list (known : K -> Prop) (keys : list K) (x : K) : Prop :=
    exists key, In key keys /\ closure known key x.

  (** Every key comes after all of its own missing prerequisites. *)
  Definition prereq_first (known : K -> Prop) (l : list K) : Prop :=
    forall l1 k l2, l = l1 ++ k :: l2 ->
      forall r, In r (req k) -> ~ known r -> In r l1.
End TopoSpec.
