(** Occurrence semantics of string and matrix patterns (C01/C02/C05/C07/C11).
    A pattern is a list of cells (key, literal-or-variable); [char_of k] is the
    host character on which cell [k] lands (None if there is none).
    Declarative reading: there is an assignment of characters to variables such
    that every cell lands on an existing character, equal to the literal resp.
    to the value of the variable.  [occ_env] is the executable left-to-right
    scan; [occ_env_iff] (Proofs/OccProofs.v) shows they coincide. *)
From PM Require Import Model.Prelude Model.DomString Model.DomMatrix.

Section Occ.
  Context {K : Type} (char_of : K -> option N).

  Definition cell_ok (env : N -> N) (kc : K * charvar) : Prop :=
    exists ch, char_of (fst kc) = Some ch
               /\ match snd kc with Lit l => ch = l | Var x => env x = ch end.

  (** the specification *)
  Definition occurs (cells : list (K * charvar)) : Prop :=
    exists env : N -> N, forall kc, In kc cells -> cell_ok env kc.

  (** executable scan: [cenv] remembers the character of the first cell of each variable *)
  Fixpoint occ_env (cells : list (K * charvar)) (cenv : list (N * N)) : option (list (N * N)) :=
    match cells with
    | [] => Some cenv
    | (k, Lit l) :: r =>
        match char_of k with
        | Some ch => if N.eqb ch l then occ_env r cenv else None
        | None => None
        end
    | (k, Var x) :: r =>
        match char_of k with
        | None => None
        | Some ch =>
            match var_lookup cenv x with
            | Some c0 => if N.eqb c0 ch then occ_env r cenv else None
            | None => occ_env r ((x, ch) :: cenv)
            end
        end
    end.

  Definition occursb (cells : list (K * charvar)) : bool :=
    match occ_env cells [] with Some _ => true | None => false end.
End Occ.

(** strings: cell j of the pattern lands on character [a + j] *)
Fixpoint s_cells (p : spattern) (i : N) : list (N * charvar) :=
  match p with
  | [] => []
  | cv :: p' => (i, cv) :: s_cells p' (i + 1)%N
  end.

Definition s_char_of (h : shost) (a : N) (k : N) : option N := char_at h (a + k)%N.

(** a non-empty pattern occurs at character position [a] of [h] *)
Definition occ_string (p : spattern) (h : shost) (a : N) : Prop :=
  occurs (s_char_of h a) (s_cells p 0).
Definition occ_stringb (p : spattern) (h : shost) (a : N) : bool :=
  occursb (s_char_of h a) (s_cells p 0).

(** matrices: cell (i, j) lands on host cell (r + i, c + j); the anchor cell
    itself must exist *)
Definition m_char_of (h : mhost) (a : mval) (k : mkey) : option N :=
  match add_signed (fst a) (fst k), add_signed (snd a) (snd k) with
  | Some r, Some c => cell_at h (r, c)
  | _, _ => None
  end.

Definition occ_matrix (p : mpattern) (h : mhost) (a : mval) : Prop :=
  cell_at h a <> None /\ occurs (m_char_of h a) (m_enum p 0%Z).
Definition occ_matrixb (p : mpattern) (h : mhost) (a : mval) : bool :=
  match cell_at h a with Some _ => occursb (m_char_of h a) (m_enum p 0%Z) | None => false end.
