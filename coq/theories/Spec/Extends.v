(** Specification of bind_all: the recursive, depth-first enumeration of all
    ways to extend a binding (DESIGN.md §5/§6 C13).  It does not mention the
    level-by-level algorithm of the implementation. *)
From PM Require Import Model.Prelude Model.Domain.

Section Extends.
  Context {K V M H P : Type} (D : DomOps K V M H P).

  (** The candidate maps obtained from [m] for a single key. *)
  Definition ext_step (h : H) (inc : bool) (k : K) (m : M) : res (list M) :=
    match mget D m k with
    | Some _ => Ok [m]                      (* already bound: left alone *)
    | None =>
        let* vs := opts D h k m in
        match vs with
        | [] => Ok (if inc then [m] else [])  (* nothing offered *)
        | _ => Ok (flat_map (fun v => match mbind D m k v with
                                      | Some m' => [m'] | None => [] end) vs)
        end
    end.

  Fixpoint extend (h : H) (inc : bool) (ks : list K) (m : M) : res (list M) :=
    match ks with
    | [] => Ok [m]
    | k :: ks' =>
        let* ms := ext_step h inc k m in
        rflatM (extend h inc ks') ms
    end.

  (** Relational reading, for maps that can be extended without panics:
      [ext_rel h inc ks m m'] iff m' is obtained from m by walking through ks. *)
  Inductive ext_rel (h : H) (inc : bool) : list K -> M -> M -> Prop :=
  | ext_nil m : ext_rel h inc [] m m
  | ext_bound k ks m m' v :
      mget D m k = Some v -> ext_rel h inc ks m m' -> ext_rel h inc (k :: ks) m m'
  | ext_skip k ks m m' :
      mget D m k = None -> opts D h k m = Ok [] -> inc = true ->
      ext_rel h inc ks m m' -> ext_rel h inc (k :: ks) m m'
  | ext_bind k ks m m1 m' vs v :
      mget D m k = None -> opts D h k m = Ok vs -> In v vs ->
      mbind D m k v = Some m1 ->
      ext_rel h inc ks m1 m' -> ext_rel h inc (k :: ks) m m'.
End Extends.
