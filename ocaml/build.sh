#!/bin/sh
# Extract the model and build the OCaml driver. Run from anywhere.
set -e
cd "$(dirname "$0")"
mkdir -p _build
cd _build
timeout 600 coqc -Q ../../coq/theories PM ../../coq/theories/Extract/Extract.v >/dev/null
cp ../driver.ml .
timeout 600 ocamlfind ocamlopt -O3 -w -a model.mli model.ml driver.ml -o pmmodel 2>/dev/null || \
timeout 600 ocamlfind ocamlopt -w -a model.mli model.ml driver.ml -o pmmodel
