(* Line-oriented driver around the extracted model.
   One s-expression per input line, one canonical result line per case.
   Unverified glue (parsing / printing only): see DESIGN.md §7. *)
open Model

(* ------------------------------------------------------------------ sexp *)
type sx = A of string | L of sx list

let parse_line (s : string) : sx =
  let n = String.length s in
  let pos = ref 0 in
  let rec skip () =
    if !pos < n && (s.[!pos] = ' ' || s.[!pos] = '\t' || s.[!pos] = '\r') then (incr pos; skip ()) in
  let rec parse () : sx =
    skip ();
    if !pos >= n then failwith "unexpected end";
    if s.[!pos] = '(' then begin
      incr pos;
      let items = ref [] in
      let rec loop () =
        skip ();
        if !pos >= n then failwith "unclosed paren";
        if s.[!pos] = ')' then incr pos
        else begin items := parse () :: !items; loop () end in
      loop ();
      L (List.rev !items)
    end else begin
      let st = !pos in
      while !pos < n && s.[!pos] <> ' ' && s.[!pos] <> '(' && s.[!pos] <> ')' && s.[!pos] <> '\t' do
        incr pos
      done;
      A (String.sub s st (!pos - st))
    end in
  parse ()

let rec show (x : sx) : string =
  match x with
  | A s -> s
  | L l -> "(" ^ String.concat " " (List.map show l) ^ ")"

(* ------------------------------------------------------------ conversions *)
let rec pos_of_int (i : int) : positive =
  if i = 1 then XH
  else if i land 1 = 0 then XO (pos_of_int (i lsr 1))
  else XI (pos_of_int (i lsr 1))

let n_of_int (i : int) : n = if i = 0 then N0 else Npos (pos_of_int i)

let rec int_of_pos (p : positive) : int =
  match p with XH -> 1 | XO q -> 2 * int_of_pos q | XI q -> 2 * int_of_pos q + 1

let int_of_n (x : n) : int = match x with N0 -> 0 | Npos p -> int_of_pos p

let rec nat_of_int (i : int) : nat = if i <= 0 then O else S (nat_of_int (i - 1))
let rec int_of_nat (x : nat) : int = match x with O -> 0 | S y -> 1 + int_of_nat y

let atom_int (x : sx) : int =
  match x with A s -> int_of_string s | _ -> failwith "expected int atom"
let sx_n (x : sx) : n = n_of_int (atom_int x)
let sx_list (f : sx -> 'a) (x : sx) : 'a list =
  match x with L l -> List.map f l | _ -> failwith "expected list"
let sx_bool (x : sx) : bool = atom_int x <> 0
let n_sx (x : n) : sx = A (string_of_int (int_of_n x))
let int_sx (i : int) : sx = A (string_of_int i)
let bool_sx (b : bool) : sx = A (if b then "1" else "0")

let site_name (s : site) : string =
  match s with
  | SiteRetainUnwrap -> "retain-unwrap"
  | SiteMatrixStartAssert -> "matrix-start-assert"
  | SiteMatrixGetNeg -> "matrix-get-neg"
  | SiteCheckArity -> "check-arity"
  | SiteFailNextState -> "fail-next-state"
  | SiteBadTransition -> "bad-transition"
  | SiteBadState -> "bad-state"
  | SiteTreeIndex -> "tree-index"
  | SiteTreeNode -> "tree-node"
  | SitePGFreePortsRoot -> "pg-free-ports-root"
  | SiteConditionedArgs -> "conditioned-args"
  | SiteStringTreeArgs -> "string-tree-args"
  | SiteOther n -> "other-" ^ string_of_int (int_of_nat n)

(* Panics are compared without the site name by default (Rust only reports
   "panic"); the site is appended after a '#' so the python driver can strip it. *)
let res_sx (f : 'a -> sx) (r : 'a res) : sx =
  match r with
  | Ok a -> L [A "ok"; f a]
  | Panic s -> L [A "panic"; A ("#" ^ site_name s)]
  | OutOfFuel -> L [A "out-of-fuel"]

let big_fuel = nat_of_int 100000

(* ----------------------------------------------------------- table domain *)
let sx_tmap (x : sx) : tmap =
  sx_list (fun e -> match e with L [k; v] -> (sx_n k, sx_n v) | _ -> failwith "tmap entry") x

let tmap_sx (m : tmap) : sx =
  let l = List.map (fun (k, v) -> (int_of_n k, int_of_n v)) m in
  let l = List.sort compare l in
  L (List.map (fun (k, v) -> L [int_sx k; int_sx v]) l)

let sx_thost (x : sx) : thost =
  match x with
  | L [r; rows] ->
      { t_req = sx_list (sx_list sx_n) r;
        t_rows = sx_list (sx_list (sx_list sx_n)) rows }
  | _ -> failwith "thost"

let sx_tpred (x : sx) : tpred =
  match x with
  | L [A "always"] -> TAlways
  | L [A "eqc"; c] -> TEqConst (sx_n c)
  | L [A "eqk"] -> TEqKeys
  | L [A "nek"] -> TNeKeys
  | L [A "rec"; n] -> TRec (nat_of_int (atom_int n))
  | _ -> failwith "tpred"

(* Z conversions *)
let z_of_int (i : int) : z = if i = 0 then Z0 else if i > 0 then Zpos (pos_of_int i) else Zneg (pos_of_int (-i))
let int_of_z (x : z) : int = match x with Z0 -> 0 | Zpos p -> int_of_pos p | Zneg p -> - (int_of_pos p)
let sx_z (x : sx) : z = z_of_int (atom_int x)
let z_sx (x : z) : sx = A (string_of_int (int_of_z x))

let sx_mkey (x : sx) : z * z = match x with L [r; c] -> (sx_z r, sx_z c) | _ -> failwith "mkey"
let sx_mval (x : sx) : n * n = match x with L [r; c] -> (sx_n r, sx_n c) | _ -> failwith "mval"
let mval_sx ((r, c) : n * n) : sx = L [n_sx r; n_sx c]
let mkey_sx ((r, c) : z * z) : sx = L [z_sx r; z_sx c]

(* ------------------------------------------------------- C14: map histories *)
let sx_mop (fk : sx -> 'k) (fv : sx -> 'v) (x : sx) : ('k, 'v) mop =
  match x with
  | L [A "b"; k; v] -> OBind (fk k, fv v)
  | L [A "g"; k] -> OGet (fk k)
  | L [A "r"; ks] -> ORetain (sx_list fk ks)
  | _ -> failwith "mop"

let opt_sx (f : 'a -> sx) (o : 'a option) : sx = match o with Some v -> f v | None -> A "-"

(* run a history; after every step print the step result and a snapshot of
   [get] over the key universe ("!" where the real get would panic) *)
let run_history mget mbind mretain (get_panics : 'm -> 'k -> bool) (vsx : 'v -> sx)
    (universe : 'k list) (m0 : 'm) (ops : ('k, 'v) mop list) : sx =
  let steps = mrun mget mbind mretain m0 ops in
  let snap m = L (List.map (fun k -> if get_panics m k then A "!" else opt_sx vsx (mget m k)) universe) in
  L (List.map2 (fun (m, o) op ->
      match o, op with
      | RBind ok, _ -> L [A "b"; bool_sx ok; snap m]
      | RGet v, OGet k -> if get_panics m k then L [A "g"; A "!"] else L [A "g"; opt_sx vsx v]
      | RGet v, _ -> L [A "g"; opt_sx vsx v]
      | RRetain ok, _ -> L [A "r"; bool_sx ok; snap m]) steps ops)

let cmd_c14 (args : sx list) : sx =
  match args with
  | [A "gen"; ops] ->
      let d = table_dom [] in
      let universe = List.map n_of_int [0; 1; 2; 3] in
      run_history d.mget d.mbind d.mretain (fun _ _ -> false) n_sx universe d.mempty
        (sx_list (sx_mop sx_n sx_n) ops)
  | [A "str"; ops] ->
      let d = string_dom in
      let universe = List.map n_of_int [0; 1; 2; 3; 4; 5] in
      run_history d.mget d.mbind d.mretain (fun _ _ -> false) n_sx universe d.mempty
        (sx_list (sx_mop sx_n sx_n) ops)
  | [A "mat"; ops] ->
      let d = matrix_dom in
      let universe = List.concat_map (fun r -> List.map (fun c -> (z_of_int r, z_of_int c)) [-1; 0; 1; 2]) [-1; 0; 1; 2] in
      run_history d.mget d.mbind d.mretain mmget_panics mval_sx universe d.mempty
        (sx_list (sx_mop sx_mkey sx_mval) ops)
  | _ -> failwith "c14 args"

(* --------------------------------------------------------------- commands *)
let cmd_c12 (args : sx list) : sx =
  match args with
  | [sch; keys; known] ->
      let sch = sx_list (sx_list sx_n) sch in
      let r = all_missing_bindings N.eqb (t_reqf sch) big_fuel (sx_list sx_n keys) (sx_list sx_n known) in
      res_sx (fun l -> L (List.map n_sx l)) r
  | _ -> failwith "c12 args"

let cmd_c12m (args : sx list) : sx =
  match args with
  | [sch; key; known] ->
      let sch = sx_list (sx_list sx_n) sch in
      let r = missing_bindings N.eqb (t_reqf sch) big_fuel (sx_n key) (sx_list sx_n known) in
      res_sx (fun l -> L (List.map n_sx l)) r
  | _ -> failwith "c12m args"

(* the verified answer checker on the implementation's list, the model's answer as reference set *)
let cmd_c12v (args : sx list) : sx =
  match args with
  | [sch; keys; known; out] ->
      let sch = sx_list (sx_list sx_n) sch in
      let known = sx_list sx_n known in
      (match all_missing_bindings N.eqb (t_reqf sch) big_fuel (sx_list sx_n keys) known with
       | Ok l -> bool_sx (valid_answerb N.eqb (t_reqf sch) known l (sx_list sx_n out))
       | _ -> A "model-not-ok")
  | _ -> failwith "c12v args"

let cmd_c12_pinned (args : sx list) : sx =
  match args with
  | [sch; keys; known] ->
      let sch = sx_list (sx_list sx_n) sch in
      let r = all_missing_bindings_pinned N.eqb (t_reqf sch) big_fuel (sx_list sx_n keys) (sx_list sx_n known) in
      res_sx (fun l -> L (List.map n_sx l)) r
  | _ -> failwith "c12p args"

let cmd_c13 (args : sx list) : sx =
  match args with
  | [host; m; keys; inc] ->
      let h = sx_thost host in
      let d = table_dom h.t_req in
      let r = bind_all d h (sx_tmap m) (sx_list sx_n keys) (sx_bool inc) in
      res_sx (fun l -> L (List.map tmap_sx l)) r
  | _ -> failwith "c13 args"

let cmd_c16 (args : sx list) : sx =
  match args with
  | [pred; cargs; m] ->
      let d = table_dom [] in
      let p = sx_tpred pred in
      let h = { t_req = []; t_rows = [] } in
      (match try_new d p (sx_list sx_n cargs) with
       | Inl (pa, aa) -> L [A "arity-err"; int_sx (int_of_nat pa); int_sx (int_of_nat aa)]
       | Inr c ->
           (match is_satisfied_calls d h c (sx_tmap m) with
            | Ok (SatVerdict b, calls) -> L [A "verdict"; bool_sx b; int_sx (int_of_nat calls)]
            | Ok (SatUnbound k, calls) -> L [A "unbound"; n_sx k; int_sx (int_of_nat calls)]
            | Panic s -> L [A "panic"; A ("#" ^ site_name s)]
            | OutOfFuel -> L [A "out-of-fuel"]))
  | _ -> failwith "c16 args"

(* ------------------------------------------------------- C15: toposort *)
let sx_tgraph (x : sx) : (n * n list) list =
  sx_list (fun e -> match e with L [v; outs] -> (sx_n v, sx_list sx_n outs) | _ -> failwith "tgraph") x

let cmd_c15 (args : sx list) : sx =
  match args with
  | [root; calls] ->
      let calls = sx_list (fun c -> match c with L [g; ord] -> (sx_tgraph g, sx_list sx_n ord) | _ -> failwith "call") calls in
      (match ts_run (nat_of_int 1000) calls (ts_init (sx_n root)) with
       | Ok (outs, _) -> L (List.map (fun o -> opt_sx n_sx o) outs)
       | Panic s -> L [A "panic"; A ("#" ^ site_name s)]
       | OutOfFuel -> L [A "out-of-fuel"])
  | _ -> failwith "c15 args"

(* ManyMatcher glue: which input positions are handed to the builder, get_pattern, n_patterns *)
let cmd_glue (args : sx list) : sx =
  match args with
  | [A fb; flags] ->
      let pats = List.mapi (fun i f -> (i, sx_bool f)) (sx_list (fun x -> x) flags) in
      let convert (p : int * bool) : (unit, int) sum = if snd p then Inr (fst p) else Inl () in
      let fb = if fb = "skip" then FSkip else FFail in
      (match compile convert fb pats with
       | Inl () -> L [A "err"]
       | Inr l ->
           let ids = List.map fst l in
           let table = pattern_table pats ids in
           L [A "ok"; L (List.map n_sx ids); int_sx (int_of_nat (n_patterns table));
              L (List.mapi (fun i _ -> match get_pattern table (n_of_int i) with Some (tag, _) -> int_sx tag | None -> A "-") pats)])
  | _ -> failwith "glue args"

(* the verified history validator on what the implementation emitted *)
let cmd_c15v (args : sx list) : sx =
  match args with
  | [calls; outs] ->
      let calls = sx_list (fun c -> match c with L [g; ord] -> (sx_tgraph g, sx_list sx_n ord) | _ -> failwith "call") calls in
      let outs = sx_list (fun o -> match o with A "-" -> None | o -> Some (sx_n o)) outs in
      bool_sx (hist_okb calls outs [])
  | _ -> failwith "c15v args"

(* ------------------------------------------- strings / matrices: engine *)
let sx_cv (x : sx) : charvar =
  match x with
  | L [A "l"; c] -> Lit (sx_n c)
  | L [A "v"; c] -> Var (sx_n c)
  | _ -> failwith "charvar"
let sx_spat (x : sx) : charvar list = sx_list sx_cv x
let sx_mpat (x : sx) : charvar option list list =
  sx_list (sx_list (fun c -> match c with A "-" -> None | c -> Some (sx_cv c))) x
let sx_shost (x : sx) : n list = sx_list sx_n x
let sx_mhost (x : sx) : n list list = sx_list (sx_list sx_n) x

let sx_ccons (fk : sx -> 'k) (x : sx) : ('k, cpredicate) constraint0 =
  match x with
  | L (A "eq" :: args) -> { cpred = CBindingEq; cargs = List.map fk args }
  | L (A "const" :: c :: args) -> { cpred = CConst (sx_n c); cargs = List.map fk args }
  | _ -> failwith "char constraint"
let ccons_sx (kf : 'k -> sx) (c : ('k, cpredicate) constraint0) : sx =
  match c.cpred with
  | CBindingEq -> L (A "eq" :: List.map kf c.cargs)
  | CConst ch -> L (A "const" :: n_sx ch :: List.map kf c.cargs)

let sx_automaton (fk : sx -> 'k) (fc : sx -> ('k, 'p) constraint0) (x : sx) : ('k, 'p) automaton =
  match x with
  | L [root; states] ->
      { au_root = sx_n root;
        au_states = sx_list (fun st ->
          match st with
          | L [id; det; ms; scope; co; eo; outs] ->
              { a_id = sx_n id; a_det = sx_bool det;
                a_matches = sx_list (fun m -> match m with L [p; ks] -> (sx_n p, sx_list fk ks) | _ -> failwith "match") ms;
                a_scope = sx_list fk scope;
                a_corder = sx_list sx_n co; a_eorder = sx_list sx_n eo;
                a_out = sx_list (fun e -> match e with
                  | L [eid; tgt; c] -> { e_id = sx_n eid; e_target = sx_n tgt;
                                         e_cons = (match c with A "-" -> None | c -> Some (fc c)) }
                  | _ -> failwith "edge") outs }
          | _ -> failwith "state") states }
  | _ -> failwith "automaton"

let spm_sx (m : spm) : sx =
  match m with SUnbound -> L [A "u"] | SBound (s, l) -> L [A "b"; n_sx s; n_sx l]
let mpm_sx (m : mpm) : sx =
  match m with
  | MUnbound -> L [A "u"]
  | MBound ((r, c), (a, b), (x, y)) -> L [A "b"; n_sx r; n_sx c; z_sx a; z_sx b; z_sx x; z_sx y]

let matches_sx (f : 'm -> sx) (l : (n * 'm) list) : sx =
  L (List.map (fun (p, m) -> L [n_sx p; f m]) l)

(* populate_scopes of the builder, recomputed by the model on the dumped graph: the states whose
   recorded scope differs, as a set, from the computed one (states ordered by the unverified rank;
   a wrong order makes the model return a panic, which is reported) *)
let scopes_field dom (a : ('k, 'p) automaton) : sx list =
  let rk = compute_rank a in
  let ids = List.map (fun s -> s.a_id) a.au_states in
  let rank id = match List.find_opt (fun (i, _) -> i = id) rk with Some (_, r) -> r | None -> O in
  let rec nat_to_int n = match n with O -> 0 | S m -> 1 + nat_to_int m in
  let order = List.stable_sort (fun x y -> compare (nat_to_int (rank x)) (nat_to_int (rank y))) ids in
  match populate_scopes dom big_fuel a order with
  | Ok sc -> [A "scopes"; L (List.map n_sx (scope_mismatches dom a sc))]
  | Panic _ -> [A "scopes"; A "panic"]
  | OutOfFuel -> [A "scopes"; A "out-of-fuel"]

(* add_pattern's key list for each compiled pattern, recomputed by the model and compared, as sets,
   with what every accepting state of the dump records: the (state, pattern) pairs that differ *)
let mkeys_field dom (a : ('k, 'p) automaton) (extras : 'k list list) (css : ('k, 'p) constraint0 list list) (pres : bool list) : sx list =
  let pats = List.mapi (fun i cs ->
      if List.nth pres i then Some ((match List.nth_opt extras i with Some e -> e | None -> []), cs) else None) css in
  [A "mkeys"; L (List.map (fun (s, p) -> L [n_sx s; n_sx p]) (match_key_mismatches dom big_fuel a pats))]

let run_fuel = nat_of_int 200000

let cmd_engine (args : sx list) : sx =
  match args with
  | [A "aut-run"; A "str"; aut; hosts] ->
      let a = sx_automaton sx_n (sx_ccons sx_n) aut in
      L (List.map (fun h -> res_sx (matches_sx spm_sx) (run string_dom run_fuel a (sx_shost h))) (match hosts with L l -> l | _ -> failwith "hosts"))
  | [A "aut-run"; A "mat"; aut; hosts] ->
      let a = sx_automaton sx_mkey (sx_ccons sx_mkey) aut in
      L (List.map (fun h -> res_sx (matches_sx mpm_sx) (run matrix_dom run_fuel a (sx_mhost h))) (match hosts with L l -> l | _ -> failwith "hosts"))
  | [A "parse"; A "str"; t] ->
      (match s_parse (sx_list sx_n t) with
       | Ok p -> L [A "ok"; L (List.map (ccons_sx n_sx) (s_cvec p))]
       | Panic _ -> L [A "panic"]
       | OutOfFuel -> L [A "out-of-fuel"])
  | [A "parse"; A "mat"; t] ->
      (match m_parse (sx_list sx_n t) with
       | Ok p -> L [A "ok"; L (List.map (ccons_sx mkey_sx) (m_cvec p))]
       | Panic _ -> L [A "panic"]
       | OutOfFuel -> L [A "out-of-fuel"])
  | [A "cvec"; A "str"; p] -> L (List.map (ccons_sx n_sx) (s_cvec (sx_spat p)))
  | [A "cvec"; A "mat"; p] -> L (List.map (ccons_sx mkey_sx) (m_cvec (sx_mpat p)))
  | [A "single"; A "str"; p; h] ->
      let cs = s_cvec (sx_spat p) in
      (match single string_dom run_fuel cs (sx_shost h), match_exists string_dom run_fuel cs (sx_shost h) with
       | Ok ms, Ok e -> L [L (List.map spm_sx ms); bool_sx e]
       | r, _ -> res_sx (fun _ -> A "?") r)
  | [A "single"; A "mat"; p; h] ->
      let cs = m_cvec (sx_mpat p) in
      (match single matrix_dom run_fuel cs (sx_mhost h), match_exists matrix_dom run_fuel cs (sx_mhost h) with
       | Ok ms, Ok e -> L [L (List.map mpm_sx ms); bool_sx e]
       | r, _ -> res_sx (fun _ -> A "?") r)
  | [A "naive"; A "str"; ps; h] ->
      (match naive string_dom run_fuel (sx_list (fun p -> s_cvec (sx_spat p)) ps) (sx_shost h) with
       | Ok ms -> matches_sx spm_sx ms
       | r -> res_sx (fun _ -> A "?") r)
  | [A "naive"; A "mat"; ps; h] ->
      (match naive matrix_dom run_fuel (sx_list (fun p -> m_cvec (sx_mpat p)) ps) (sx_mhost h) with
       | Ok ms -> matches_sx mpm_sx ms
       | r -> res_sx (fun _ -> A "?") r)
  | [A "cert"; A "str"; A which; aut; pats; present] ->
      let a = sx_automaton sx_n (sx_ccons sx_n) aut in
      let cs = sx_list (fun p -> s_cvec (sx_spat p)) pats in
      let pres = sx_list sx_bool present in
      let ids = List.filteri (fun i _ -> List.nth pres i) (List.mapi (fun i _ -> n_of_int i) cs) in
      let want c = String.contains which c in
      let wf = if want 'w' then [A "wf"; bool_sx (wf_check string_dom a (compute_rank a) ids && arity_ok string_dom a)] else [] in
      let snd_ = if want 's' then [A "sound"; bool_sx (lab_ok string_dom s_goodb atoms_self a (compute_lab string_dom atoms_self a) cs)] else [] in
      let cpl = if want 'c' then [A "complete"; bool_sx (cert_complete (char_entails N.eqb) (char_refutes N.eqb) a cs pres)] else [] in
      let tgt = if want 't' then [A "tight"; bool_sx (s_keys_tight a cs)] else [] in
      let tgt = tgt @ (if want 'u' then
         (* the labelling is an untrusted candidate: retry with more alternatives per state
            when the verified checkers reject the one computed with fewer *)
         let try_cap cap =
           let sl = compute_slab_cap (char_ceqb N.eqb) (char_refutes N.eqb) (nat_of_int cap) a in
           (slab_ok (char_ceqb N.eqb) (char_refutes N.eqb) a sl, cert_unamb (char_ceqb N.eqb) (char_refutes N.eqb) a sl, accept_vdet a sl) in
         let rec go caps last = match caps with
           | [] -> last
           | c :: rest -> let (x, y, z) as r = try_cap c in if x && y && z then r else go rest r in
         let (slab_b, unamb_b, vdet_b) = go [12; 64; 400; 3000] (false, false, false) in
         [A "slab"; bool_sx slab_b; A "unamb"; bool_sx unamb_b;
          A "vdet"; bool_sx vdet_b; A "eroot"; bool_sx (empty_keys_at_root a && empty_pattern_keys a cs); A "esc"; bool_sx (empty_scope_closed a)] else []) in
      L (wf @ snd_ @ cpl @ tgt @ (if want 'p' then scopes_field string_dom a @ mkeys_field string_dom a [] cs pres else []))
  | [A "cert"; A "mat"; A which; aut; pats; present] ->
      let a = sx_automaton sx_mkey (sx_ccons sx_mkey) aut in
      let cs = sx_list (fun p -> m_cvec (sx_mpat p)) pats in
      let pres = sx_list sx_bool present in
      let ids = List.filteri (fun i _ -> List.nth pres i) (List.mapi (fun i _ -> n_of_int i) cs) in
      let want c = String.contains which c in
      let wf = if want 'w' then [A "wf"; bool_sx (wf_check matrix_dom a (compute_rank a) ids && arity_ok matrix_dom a)] else [] in
      let snd_ = if want 's' then [A "sound"; bool_sx (lab_ok matrix_dom m_goodb atoms_self a (compute_lab matrix_dom atoms_self a) cs)] else [] in
      let cpl = if want 'c' then [A "complete"; bool_sx (cert_complete (char_entails mkey_eqb) (char_refutes mkey_eqb) a cs pres)] else [] in
      let tgt = if want 't' then [A "tight"; bool_sx (m_keys_tight a cs && m_keys_nn a)] else [] in
      (* information (case kind "cert mat U"): the signed labelling and the exclusion of accepting states *)
      let inf = if want 'U' then
         let try_cap cap =
           let sl = compute_slab_cap (char_ceqb mkey_eqb) (char_refutes mkey_eqb) (nat_of_int cap) a in
           (slab_ok (char_ceqb mkey_eqb) (char_refutes mkey_eqb) a sl, cert_unamb (char_ceqb mkey_eqb) (char_refutes mkey_eqb) a sl) in
         let rec go caps last = match caps with
           | [] -> last
           | c :: rest -> let (x, y) as r = try_cap c in if x && y then r else go rest r in
         let (sb, ub) = go [12; 64; 400] (false, false) in
         [A "slab"; bool_sx sb; A "unamb"; bool_sx ub] else [] in
      L (wf @ snd_ @ cpl @ tgt @ inf @ (if want 'p' then scopes_field matrix_dom a @ mkeys_field matrix_dom a [] cs pres else []))
  | [A "occ"; A "str"; p; h] ->
      let pat = sx_spat p and host = sx_shost h in
      if pat = [] then L [A "u"]
      else L (List.filter_map (fun i -> if occ_stringb pat host (n_of_int i) then Some (int_sx i) else None)
                (List.init (List.length host) (fun i -> i)))
  | [A "occ"; A "mat"; p; h] ->
      let pat = sx_mpat p and host = sx_mhost h in
      L (List.filter_map (fun (r, c) -> if occ_matrixb pat host (r, c) then Some (L [n_sx r; n_sx c]) else None)
           (all_cells_from host N0))
  | _ -> failwith "engine args"

(* ---------------------------------------------------------- C10: trees *)
let nat_sx (x : nat) : sx = int_sx (int_of_nat x)
let tree_sx (cf : 'c -> sx) (t : 'c ctree) : sx =
  L [bool_sx t.ct_make_det;
     L (List.map (fun nd -> L [L (List.map nat_sx nd.tn_labels);
                               L (List.map (fun (c, i) -> L [cf c; nat_sx i]) nd.tn_children)]) t.ct_nodes)]

let sx_port (x : sx) : pgport =
  match x with
  | L [A "in"; i] -> PIn (sx_n i)
  | L [A "out"; i] -> POut (sx_n i)
  | _ -> failwith "port"
let port_sx (p : pgport) : sx = match p with PIn i -> L [A "in"; n_sx i] | POut i -> L [A "out"; n_sx i]
let sx_pgkey (x : sx) : pgkey =
  match x with
  | L [A "root"; i] -> PathRoot (sx_n i)
  | L [A "along"; r; p; l] -> AlongPath (sx_n r, sx_port p, sx_n l)
  | _ -> failwith "pgkey"
let pgkey_sx (k : pgkey) : sx =
  match k with
  | PathRoot i -> L [A "root"; n_sx i]
  | AlongPath (r, p, l) -> L [A "along"; n_sx r; port_sx p; n_sx l]
let sx_pgcons (x : sx) : (pgkey, pgpred) constraint0 =
  match x with
  | L [A "weight"; args] -> { cpred = HasNodeWeight; cargs = sx_list sx_pgkey args }
  | L [A "conn"; l; r; args] -> { cpred = IsConnected (sx_port l, sx_port r); cargs = sx_list sx_pgkey args }
  | L [A "ne"; n; args] -> { cpred = IsNotEqual (sx_n n); cargs = sx_list sx_pgkey args }
  | _ -> failwith "pgcons"
let pgcons_sx (c : (pgkey, pgpred) constraint0) : sx =
  match c.cpred with
  | HasNodeWeight -> L [A "weight"; L (List.map pgkey_sx c.cargs)]
  | IsConnected (l, r) -> L [A "conn"; port_sx l; port_sx r; L (List.map pgkey_sx c.cargs)]
  | IsNotEqual n -> L [A "ne"; n_sx n; L (List.map pgkey_sx c.cargs)]

let tree_fuel = nat_of_int 100000

let cmd_c10 (x : sx) : sx =
  match x with
  | L [A "tree"; A "str"; cs] ->
      res_sx (tree_sx (ccons_sx n_sx)) (char_tree N.compare (sx_list (sx_ccons sx_n) cs))
  | L [A "tree"; A "mat"; cs] ->
      res_sx (tree_sx (ccons_sx mkey_sx)) (char_tree mkey_cmp (sx_list (sx_ccons sx_mkey) cs))
  | L [A "tree"; A "pg"; cs] ->
      res_sx (tree_sx pgcons_sx) (pg_tree tree_fuel (sx_list sx_pgcons cs))
  | L [A "powerset"; cs] ->
      let l = List.mapi (fun i c -> (c, nat_of_int i)) (sx_list sx_pgcons cs) in
      (* a panicking conditioned (an argument-less satisfied constraint) cannot arise from try_new *)
      res_sx (tree_sx pgcons_sx) (with_powerset pgc_eqb pg_conditioned tree_fuel l)
  | L [A "conditioned"; c; sat] ->
      res_sx (fun o -> match o with None -> A "-" | Some c -> pgcons_sx c)
        (pg_conditioned_res (sx_pgcons c) (sx_list sx_pgcons sat))
  | L [A "with-children"; ch] ->
      let l = sx_list (fun e -> match e with L [c; is] -> (sx_n c, sx_list (fun i -> nat_of_int (atom_int i)) is) | _ -> failwith "child") ch in
      res_sx (tree_sx n_sx) (with_children N.eqb l)
  | L [A ("pairwise" | "transitive" as which); m; items] ->
      let md = atom_int m in
      let l = sx_list (fun e -> match e with L [c; i] -> (sx_n c, nat_of_int (atom_int i)) | _ -> failwith "item") items in
      let is_mutex a b = (int_of_n a) mod md <> (int_of_n b) mod md in
      res_sx (tree_sx n_sx)
        (if which = "pairwise" then with_pairwise_mutex N.eqb l is_mutex else with_transitive_mutex N.eqb l is_mutex)
  | _ -> failwith "c10 args"

(* ---- port graphs: host-side model (Model/DomPG.v) ---- *)
let sx_pghost (x : sx) : pghost =
  match x with
  | L [nodes; links] ->
      { pg_nodes = sx_list (fun n -> match n with
                             | A "-" -> None
                             | L [i; o] -> Some (sx_n i, sx_n o)
                             | _ -> failwith "pg node") nodes;
        pg_links = sx_list (fun l -> match l with
                             | L [a; oa; b; ib] -> (((sx_n a, sx_n oa), sx_n b), sx_n ib)
                             | _ -> failwith "pg link") links }
  | _ -> failwith "pghost"

let sx_pgmap (x : sx) : (pgkey * n) list =
  sx_list (fun e -> match e with L [k; v] -> (sx_pgkey k, sx_n v) | _ -> failwith "pgmap entry") x

(* canonical form of a binding map: entries in key order; of a list of maps or matches: sorted by text *)
let pgmap_sx (m : (pgkey * n) list) : sx =
  let l = List.sort (fun (a, _) (b, _) -> compare (show (pgkey_sx a)) (show (pgkey_sx b))) m in
  L (List.map (fun (k, v) -> L [pgkey_sx k; n_sx v]) l)
let sorted_sx (l : sx list) : sx =
  let strs = List.sort compare (List.map (fun x -> (show x, x)) l) in
  L (List.map snd strs)

let pg_fuel = nat_of_int 200000

let cmd_pg (x : sx) : sx =
  match x with
  | L [A "pg-opts"; h; k; m] ->
      res_sx (fun vs -> sorted_sx (List.map n_sx vs)) (pg_opts (sx_pghost h) (sx_pgkey k) (sx_pgmap m))
  | L [A "pg-cvec"; g; root] ->
      (* not-equal constraints: the arguments after the first are a set (hash order in the implementation) *)
      let canon (c : (pgkey, pgpred) constraint0) = match c.cpred, c.cargs with
        | IsNotEqual _, k :: others ->
            { c with cargs = k :: List.sort (fun a b -> compare (show (pgkey_sx a)) (show (pgkey_sx b))) others }
        | _ -> c in
      res_sx (fun cs -> L (List.map (fun c -> pgcons_sx (canon c)) cs)) (pg_constraint_vec (sx_pghost g) (sx_n root))
  | L [A "pg-good"; g; root] ->
      (* the hypothesis of pg_single_reports_embedding, evaluated on the pattern *)
      let gh = sx_pghost g and r = sx_n root in
      (match pg_cvec_full gh r with
       | Ok (cs, nk) -> bool_sx (pg_good_pattern gh r cs nk && lines_sound gh r && keys_distinct nk && pg_host_wfb gh)
       | _ -> A "0")
  | L [A "pg-cover"; g; root] ->
      let gh = sx_pghost g and r = sx_n root in
      (match pg_cvec_full gh r with
       | Ok (_, nk) -> L [A "cover"; bool_sx (lines_cover gh r); A "keyed"; bool_sx (nodes_keyed gh nk);
                          A "sound"; bool_sx (lines_sound gh r); A "distinct"; bool_sx (keys_distinct nk); A "wf"; bool_sx (pg_host_wfb gh);
                          A "linked"; bool_sx (root_linked gh r)]
       | _ -> L [A "cover"; A "0"; A "keyed"; A "0"; A "sound"; A "0"; A "distinct"; A "0"; A "wf"; A "0"; A "linked"; A "-"])
  | L [A "pg-hostwf"; g] -> L [A "wf"; bool_sx (pg_host_wfb (sx_pghost g))]
  | L [A "pg-walk"; h; n; p] ->
      L (List.map n_sx (walk_nodes (sx_pghost h) (sx_n n) (sx_port p)))
  | L [A "pg-single"; cs; h] ->
      res_sx (fun ms -> sorted_sx (List.map pgmap_sx ms)) (single pg_dom pg_fuel (sx_list sx_pgcons cs) (sx_pghost h))
  | L [A "pg-naive"; css; h] ->
      res_sx (fun ms -> sorted_sx (List.map (fun (p, m) -> L [n_sx p; pgmap_sx m]) ms))
        (naive pg_dom pg_fuel (sx_list (fun cs -> sx_list sx_pgcons cs) css) (sx_pghost h))
  | L [A "pg-run"; aut; hosts] ->
      let a = sx_automaton sx_pgkey sx_pgcons aut in
      L (List.map (fun h ->
            res_sx (fun ms -> sorted_sx (List.map (fun (p, m) -> L [n_sx p; pgmap_sx m]) ms))
              (run pg_dom pg_fuel a (sx_pghost h)))
           (match hosts with L l -> l | _ -> failwith "hosts"))
  | L [A "pg-srset"; aut; pats] ->
      (* hypotheses of c02_portgraph_run_complete_on_single_root_pattern_sets on the dump of an automaton
         compiled from single-root patterns: every key hangs off Root(0); the keys recorded for pattern i
         are keys of pattern i *)
      let a = sx_automaton sx_pgkey sx_pgcons aut in
      let ps = sx_list (fun x -> match x with L [g; r] -> (sx_pghost g, sx_n r) | _ -> failwith "pat") pats in
      L [A "sr"; bool_sx (aut_single_root a);
         A "mk"; L (List.mapi (fun i (g, r) ->
                      match pg_cvec_full g r with
                      | Ok (_, nk) -> bool_sx (match_keys_in nk a (n_of_int i))
                      | _ -> A "-") ps)]
  | L [A "pg-ownkeys"; aut; g; root] ->
      (* hypothesis of c02_portgraph_run_reports_embeddings_of_good_patterns: every key of the
         automaton is a key of the pattern (the pattern compiled alone) *)
      let a = sx_automaton sx_pgkey sx_pgcons aut in
      (match pg_cvec_full (sx_pghost g) (sx_n root) with
       | Ok (_, nk) -> L [A "keysin"; bool_sx (aut_keys_in nk a)]
       | _ -> L [A "keysin"; A "-"])
  | L [A "pg-cert"; aut; present; css] ->
      let a = sx_automaton sx_pgkey sx_pgcons aut in
      let pres = sx_list sx_bool present in
      let ids = List.filteri (fun i _ -> List.nth pres i) (List.mapi (fun i _ -> n_of_int i) pres) in
      let cs = sx_list (fun cs -> sx_list sx_pgcons cs) css in
      L ([A "wf"; bool_sx (wf_check pg_dom a (compute_rank a) ids && arity_ok pg_dom a);
         A "sound"; bool_sx (lab_ok pg_dom (fun _ -> true) pg_atoms a (compute_lab pg_dom pg_atoms a) cs);
         A "complete"; bool_sx (cert_complete pg_entails pg_refutes a cs pres)] @ scopes_field pg_dom a @ mkeys_field pg_dom a [] cs pres)
  | _ -> failwith "pg args"

(* ---- table domain automata: traversal on the dump, certificates ---- *)
let sx_tcons (x : sx) : (n, tpred) constraint0 =
  match x with
  | L [p; args] -> { cpred = sx_tpred p; cargs = sx_list sx_n args }
  | _ -> failwith "tcons"

let cmd_tab (x : sx) : sx =
  match x with
  | L [A "tab-run"; host; aut] ->
      let h = sx_thost host in
      let d = table_dom h.t_req in
      let a = sx_automaton sx_n sx_tcons aut in
      res_sx (fun ms -> sorted_sx (List.map (fun (p, m) -> L [n_sx p; tmap_sx m]) ms)) (run d pg_fuel a h)
  | L [A "tab-cert"; host; aut; present; css; extras] ->
      let h = sx_thost host in
      let d = table_dom h.t_req in
      let a = sx_automaton sx_n sx_tcons aut in
      let pres = sx_list sx_bool present in
      let ids = List.filteri (fun i _ -> List.nth pres i) (List.mapi (fun i _ -> n_of_int i) pres) in
      let cs = sx_list (fun cs -> sx_list sx_tcons cs) css in
      L ([A "wf"; bool_sx (wf_check d a (compute_rank a) ids && arity_ok d a);
         A "sound"; bool_sx (lab_ok d (fun _ -> true) t_atoms a (compute_lab d t_atoms a) cs)] @ scopes_field d a @ mkeys_field d a (sx_list (fun e -> sx_list sx_n e) extras) cs pres)
  | _ -> failwith "tab args"

let dispatch (x : sx) : sx =
  match x with
  | L (A "c12" :: args) -> cmd_c12 args
  | L (A "c12m" :: args) -> cmd_c12m args
  | L (A "c12v" :: args) -> cmd_c12v args
  | L (A "c12p" :: args) -> cmd_c12_pinned args
  | L (A "c13" :: args) -> cmd_c13 args
  | L (A "c16" :: args) -> cmd_c16 args
  | L (A "c14" :: args) -> cmd_c14 args
  | L (A ("c15" | "c15x") :: args) -> cmd_c15 args
  | L (A "c15v" :: args) -> cmd_c15v args
  | L (A "glue" :: args) -> cmd_glue args
  | L (A ("tree" | "powerset" | "conditioned" | "with-children" | "pairwise" | "transitive") :: _) -> cmd_c10 x
  | L ((A ("aut-run" | "parse" | "cvec" | "single" | "naive" | "cert" | "occ")) :: _ as args) -> cmd_engine args
  | L (A ("tab-run" | "tab-cert") :: _) -> cmd_tab x
  | L (A ("pg-opts" | "pg-walk" | "pg-single" | "pg-naive" | "pg-run" | "pg-cert" | "pg-cvec" | "pg-cover" | "pg-good" | "pg-ownkeys" | "pg-srset" | "pg-hostwf") :: _) -> cmd_pg x
  | _ -> failwith "unknown command"

let () =
  try
    while true do
      let line = input_line stdin in
      if String.length line > 0 then begin
        let out =
          try show (dispatch (parse_line line))
          with Failure msg -> "(driver-error " ^ msg ^ ")"
             | Stack_overflow -> "(driver-error stack-overflow)" in
        print_string out; print_newline ()
      end
    done
  with End_of_file -> ()
