#!/bin/sh
# Build the whole framework offline: Coq development, extracted model + OCaml driver, Rust harness.
set -e
cd "$(dirname "$0")"
export CARGO_NET_OFFLINE=true
mkdir -p .build evidence replays
( cd coq && coq_makefile -f _CoqProject -o Makefile >/dev/null && timeout 3000 make -j16 >/dev/null )
( cd ocaml && ./build.sh )
cp /repo/Cargo.lock harness/Cargo.lock
( cd harness && timeout 3000 cargo build --release --offline 2>&1 | tail -3 )
echo setup-ok
