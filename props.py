"""Per-property configuration of ./check (levels, sub-checks, trusted base)."""

KERNEL = "Coq 8.16.1 kernel (coqc, full .vo build; vm_compute only in Examples/_refuted witnesses; no native_compute)"
EXTRACT = "OCaml extraction (ExtrOcamlBasic only, no Extract Constant) + unverified driver ocaml/driver.ml"
HARNESS = "Rust harness /verif/harness (generators, canonicalisation, oracles) and the `verif` feature hooks"
MODELLED = "hand-written Gallina model of the Rust code, tied by the correspondence check only"

COMMON_ASSUMPTIONS = [
    "the model is tied to /repo by differential testing, whose strength is bounded by generator quality",
    "usize/isize modelled as unbounded integers; allocation, stack depth and time not modelled",
]

PROPS = {
    "C12": {
        "subs": ["c12"],
        "level": "proof",
        "rule": "table schemes: exhaustive small schemes x requested lists x known sets, then random DAGs on <= 8 keys "
                "(random relabelling, duplicate prerequisites, keys outside the table, prerequisite-closed and arbitrary known sets) "
                "plus a malformed (cyclic) stream compared with the model only; non-trivial = some key has >= 2 prerequisites or "
                "known is non-empty, and the answer has >= 2 keys; distinct by hash of the canonical case",
        "trusted_base": [KERNEL, EXTRACT, HARNESS, MODELLED + " (Model/Scheme.v <-> indexing.rs missing_bindings/all_missing_bindings)"],
        "assumptions": COMMON_ASSUMPTIONS + ["HashSet membership modelled by list membership (no iteration order is observable here)"],
        "explanation": "Theorems c12_* quantify over every key type, scheme, requested keys and known set; the correspondence check "
                       "compares the exact returned lists of the implementation with the extracted model.",
    },
    "C13": {
        "subs": ["c13"],
        "level": "proof",
        "rule": "table hosts whose offered values depend on the values of prerequisite keys: exhaustive small chain tables, then random "
                "tables with <= 6 keys, 0-3 rows of 0-3 values, pre-bound keys, repeated and out-of-table keys, both modes; "
                "non-trivial = some listed key has >= 2 options, is pre-bound, or has no option",
        "trusted_base": [KERNEL, EXTRACT, HARNESS, MODELLED + " (Model/BindAll.v <-> indexing.rs IndexedData::bind_all)"],
        "assumptions": COMMON_ASSUMPTIONS,
        "explanation": "bind_all is proved equal (as a list) to the recursive specification `extend`, and its elements are exactly the "
                       "maps related by ext_rel; compared with the implementation as exact sequences of maps.",
    },
    "C16": {
        "subs": ["c16"],
        "level": "proof",
        "rule": "table predicates incl. a recording predicate that counts invocations: exhaustive argument lists x partial bindings, "
                "then random; non-trivial = arity matches and the arguments mix bound and unbound keys, or are all bound with arity >= 1",
        "trusted_base": [KERNEL, EXTRACT, HARNESS, MODELLED + " (Model/Constraint.v <-> constraint.rs try_new/is_satisfied)"],
        "assumptions": COMMON_ASSUMPTIONS,
        "explanation": "The theorems are short; the weight is on the correspondence (constructor result, verdict, name of the first "
                       "unbound key, number of predicate invocations), which is what a code change breaks.",
    },
    "C14": {
        "subs": ["c14"],
        "level": "proof",
        "rule": "operation histories (bind of offered and of arbitrary values, get, retain_keys with key sets built in several "
                "insertion orders) on HashMap, BTreeMap, StringPositionMap, MatrixPositionMap: exhaustive to depth 3 (quick) / 4 "
                "(thorough) over per-kind alphabets on small hosts, then random histories of length <= 9; after every step the "
                "whole key universe is read back; non-trivial = a successful bind followed by at least one further operation",
        "trusted_base": [KERNEL, EXTRACT, HARNESS, MODELLED + " (Model/BindMaps.v, DomString.v, DomMatrix.v <-> indexing.rs BindMap impls "
                         "and default retain_keys, string.rs StringPositionMap, matrix.rs MatrixPositionMap)"],
        "assumptions": COMMON_ASSUMPTIONS + [
            "HashMap and BTreeMap share one association-list model (only get/bind/retain_keys are observable through the trait)",
            "the iteration order of the key set handed to retain_keys is read back from an FxHashSet with the same insertion history and given to the model",
            "a MatrixPositionMap holding a key whose position would be negative panics in get (checked_add_signed); the model marks these '!' and the theorems exclude them (never offered by a host)"],
        "explanation": "Laws of each map and invariants over all operation histories (c14_*_history) are proved on the model, including "
                       "that the repaired default retain_keys never panics on a duplicate-free key set containing the start key, whatever "
                       "its iteration order; the implementation is compared with the model step by step (result of every operation and "
                       "get over the whole key universe after it) and checked against an independent map-law oracle.",
    },
    "C15": {
        "subs": ["c15"],
        "level": "proof",
        "rule": "random edit histories on petgraph StableDiGraph (add node with edges, add edge incl. parallel edges, remove edge, remove node) "
                "interleaved with next(): 3/4 admissible by construction (acyclic, node 0 the only source, no edge into an emitted node "
                "from an unemitted one, no identifier reuse), 1/4 unrestricted; exact emitted sequences compared with the model; "
                "non-trivial = at least one edit lies between two next calls",
        "trusted_base": [KERNEL, EXTRACT, HARNESS, MODELLED + " (Model/Toposort.v <-> utils/toposort.rs OnlineToposort::next; petgraph adjacency "
                         "order is taken from the real graph at every call)"],
        "assumptions": COMMON_ASSUMPTIONS + [
            "the iteration order of the private visited set is reproduced by a shadow FxHashSet with the same insertion history and handed to the model",
            "the three clauses are judged on the implementation only for admissible histories; on other histories only model and implementation are compared"],
        "explanation": "at-most-once and predecessors-first are proved for all histories of graph snapshots and all iteration orders; exhaustiveness for "
                       "every call that reports None on a graph that is acyclic at that moment and whose sources have all been emitted; "
                       "termination/no-panic of each call for graphs whose edges end on existing nodes.",
    },
}
