"""Per-property configuration of ./check (levels, sub-checks, trusted base)."""

KERNEL = "Coq 8.16.1 kernel (coqc, full .vo build; vm_compute only in Examples/_refuted witnesses; no native_compute)"
EXTRACT = "OCaml extraction (ExtrOcamlBasic only, no Extract Constant) + unverified driver ocaml/driver.ml"
HARNESS = "Rust harness /verif/harness (generators, canonicalisation, oracles) and the `verif` feature hooks"
MODELLED = "hand-written Gallina model of the Rust code, tied by the correspondence check only"

COMMON_ASSUMPTIONS = [
    "the model is tied to /repo by differential testing, whose strength is bounded by generator quality",
    "usize/isize modelled as unbounded integers; allocation, stack depth and time not modelled",
]

PROPS = {
    "C12": {
        "subs": ["c12"],
        "level": "proof",
        "rule": "table schemes: exhaustive small schemes x requested lists x known sets, then random DAGs on <= 8 keys "
                "(random relabelling, duplicate prerequisites, keys outside the table, prerequisite-closed and arbitrary known sets) "
                "plus a malformed (cyclic) stream compared with the model only; non-trivial = some key has >= 2 prerequisites or "
                "known is non-empty, and the answer has >= 2 keys; distinct by hash of the canonical case",
        "trusted_base": [KERNEL, EXTRACT, HARNESS, MODELLED + " (Model/Scheme.v <-> indexing.rs missing_bindings/all_missing_bindings)"],
        "assumptions": COMMON_ASSUMPTIONS + ["HashSet membership modelled by list membership (no iteration order is observable here)"],
        "explanation": "Theorems c12_* quantify over every key type, scheme, requested keys and known set: partial correctness (c12_missing_ok, c12_all_missing_ok: exactly the "
                       "closure, no repetition, prerequisites first, nothing for known keys) and termination on every acyclic scheme (c12_missing_terminates, "
                       "c12_all_missing_terminates: explicit fuel bound = weight of the requested keys); the correspondence check "
                       "compares the exact returned lists of the implementation with the extracted model.",
    },
    "C13": {
        "subs": ["c13"],
        "level": "proof",
        "rule": "table hosts whose offered values depend on the values of prerequisite keys: exhaustive small chain tables, then random "
                "tables with <= 6 keys, 0-3 rows of 0-3 values, pre-bound keys, repeated and out-of-table keys, both modes; "
                "non-trivial = some listed key has >= 2 options, is pre-bound, or has no option",
        "trusted_base": [KERNEL, EXTRACT, HARNESS, MODELLED + " (Model/BindAll.v <-> indexing.rs IndexedData::bind_all)"],
        "assumptions": COMMON_ASSUMPTIONS,
        "explanation": "bind_all is proved equal (as a list) to the recursive specification `extend`, and its elements are exactly the "
                       "maps related by ext_rel; compared with the implementation as exact sequences of maps.",
    },
    "C16": {
        "subs": ["c16"],
        "level": "proof",
        "rule": "table predicates incl. a recording predicate that counts invocations: exhaustive argument lists x partial bindings, "
                "then random; non-trivial = arity matches and the arguments mix bound and unbound keys, or are all bound with arity >= 1",
        "trusted_base": [KERNEL, EXTRACT, HARNESS, MODELLED + " (Model/Constraint.v <-> constraint.rs try_new/is_satisfied)"],
        "assumptions": COMMON_ASSUMPTIONS,
        "explanation": "The theorems are short; the weight is on the correspondence (constructor result, verdict, name of the first "
                       "unbound key, number of predicate invocations), which is what a code change breaks.",
    },
    "C14": {
        "subs": ["c14"],
        "level": "proof",
        "rule": "operation histories (bind of offered and of arbitrary values, get, retain_keys with key sets built in several "
                "insertion orders) on HashMap, BTreeMap, StringPositionMap, MatrixPositionMap: exhaustive to depth 3 (quick) / 4 "
                "(thorough) over per-kind alphabets on small hosts, then random histories of length <= 9; after every step the "
                "whole key universe is read back; non-trivial = a successful bind followed by at least one further operation",
        "trusted_base": [KERNEL, EXTRACT, HARNESS, MODELLED + " (Model/BindMaps.v, DomString.v, DomMatrix.v <-> indexing.rs BindMap impls "
                         "and default retain_keys, string.rs StringPositionMap, matrix.rs MatrixPositionMap)"],
        "assumptions": COMMON_ASSUMPTIONS + [
            "HashMap and BTreeMap share one association-list model (only get/bind/retain_keys are observable through the trait)",
            "the iteration order of the key set handed to retain_keys is read back from an FxHashSet with the same insertion history and given to the model",
            "a MatrixPositionMap holding a key whose position would be negative panics in get (checked_add_signed); the model marks these '!' and the theorems exclude them (never offered by a host)"],
        "explanation": "Laws of each map and invariants over all operation histories (c14_*_history) are proved on the model, including "
                       "that the repaired default retain_keys never panics on a duplicate-free key set containing the start key, whatever "
                       "its iteration order; the implementation is compared with the model step by step (result of every operation and "
                       "get over the whole key universe after it) and checked against an independent map-law oracle.",
    },
    "C15": {
        "subs": ["c15"],
        "level": "proof",
        "rule": "random edit histories on petgraph StableDiGraph (add node with edges, add edge incl. parallel edges, remove edge, remove node) "
                "interleaved with next(): 3/4 admissible by construction (acyclic, node 0 the only source, no edge into an emitted node "
                "from an unemitted one, no identifier reuse), 1/4 unrestricted; exact emitted sequences compared with the model; "
                "non-trivial = at least one edit lies between two next calls",
        "trusted_base": [KERNEL, EXTRACT, HARNESS, MODELLED + " (Model/Toposort.v <-> utils/toposort.rs OnlineToposort::next; petgraph adjacency "
                         "order is taken from the real graph at every call)"],
        "assumptions": COMMON_ASSUMPTIONS + [
            "the iteration order of the private visited set is reproduced by a shadow FxHashSet with the same insertion history and handed to the model",
            "the three clauses are judged on the implementation only for admissible histories; on other histories only model and implementation are compared"],
        "explanation": "at-most-once and predecessors-first are proved for all histories of graph snapshots and all iteration orders; exhaustiveness for "
                       "every call that reports None on a graph that is acyclic at that moment and whose sources have all been emitted; "
                       "termination/no-panic of each call for graphs whose edges end on existing nodes.",
    },
}

SM = "string and matrix domains"
AUT_RULE = ("random pattern sets of 0-8 patterns (duplicates, empty patterns, shared prefixes, 1-4 literals incl. a non-ASCII one, 0-3 variables, "
            "lengths 0-7; matrices up to 3 rows x 3 columns with holes and ragged rows), 2-6 hosts per set (planted: instantiated patterns glued "
            "with noise, near misses; random; degenerate: empty, ragged, non-ASCII), heuristics Never / Default / Custom answer sequences; "
            "non-trivial = some automaton of the case has >= 3 states and some host contains an occurrence; distinct by hash of the model input")
AUT_TB = [KERNEL, EXTRACT, HARNESS,
          MODELLED + " (Model/Traversal.v <-> automaton/traversal.rs; Model/Automaton.v <-> the `verif` dump of the real automaton; "
          "Model/DomString.v, DomMatrix.v <-> string.rs, matrix.rs and their pattern -> constraint conversion)",
          "the certificates are evaluated by the extracted checkers on the dump of the automaton the Rust builder really built; the labelling / rank "
          "fed to the checkers is computed by unverified code and only checked"]
AUT_ASSUME = COMMON_ASSUMPTIONS + [
    "the 64-bit FxHash used by AutomatonTraverser::visit is modelled by the restricted binding itself (hash collisions are not exhibited)",
    "port graphs: host side (walk_path, list_bind_options, root_candidates.rs, predicates, HashMap bindings: Model/DomPG.v) and pattern side "
    "(line_partition, constraint_vec: Model/DomPGPattern.v) are modelled and compared with the implementation (sub-check pgm: pg-cvec, pg-opts, "
    "pg-single, pg-run, as multisets / with not-equal arguments as sets: hash iteration orders inside root_candidates.rs and constraint_vec are not "
    "modelled); certificates wf/arity/lab_ok/cert_complete are evaluated on every port-graph dump; occurrences are judged by the brute-force "
    "embedding oracle, with the known-finding classes of KNOWN_FINDINGS.json (D5, D6 refuted on the model with the same witnesses)"]

def aut_prop(level, explanation, technique, subs):
    return {"subs": subs, "level": level, "rule": AUT_RULE, "trusted_base": AUT_TB, "assumptions": AUT_ASSUME,
            "explanation": explanation, "technique": technique, "timeout": 3000}

PROPS.update({
    "C01": aut_prop("proof",
        "Theorem c01_run_sound (all domains with lawful binding maps, all hosts, all executions of the modelled traversal): every match emitted on an "
        "automaton that passes lab_ok satisfies every constraint of its pattern under the returned bindings, which bind all their keys. lab_ok is "
        "evaluated on every automaton the real builder produces for the generated pattern sets; the modelled traversal is compared with "
        "ManyMatcher::find_matches as exact match sequences on those automata; every reported match is also judged by an independent occurrence oracle. "
        "Strings and matrices: c01_string / c01_matrix carry this down to the occurrence specification. Port graphs: c01_portgraph_run_sound (modelled host "
        "side, lab_ok with pairwise not-equal atoms) and c01_portgraph_embedding (pattern side modelled too: every reported match maps every pattern link "
        "to a host link and distinct pattern nodes to distinct host nodes, given the per-pattern validation lines_cover evaluated on every pattern). "
        "Harness table domain (multi-valued keys, shared prerequisites, exotic constraint trees): c01_table_run_sound, with lab_ok and the modelled "
        "traversal evaluated on every dumped table automaton (commands tab-cert / tab-run).",
        "Coq proof (invariant of the FIFO traversal w.r.t. an inductive labelling) + verified certificate checker on the real automaton + differential correspondence + occurrence oracle",
        ["c01", "pg01", "pgm", "tab03"]),
    "C02": aut_prop("translation_validation",
        "Strings and matrices: Theorems c02_string / c02_matrix - for every automaton that passes wf_check, cert_complete, keys_tight (and, matrices, "
        "keys non-negative), every host, every fuel and every Ok result of the modelled breadth-first traversal (scope-restricted bindings, "
        "visited-set pruning by (state, view)), every occurrence of every compiled pattern is in the returned list, bound at the position / anchor cell "
        "of the occurrence. The checkers are evaluated by extracted code on the dump of every automaton the real builder produces; the modelled "
        "traversal is compared with ManyMatcher::find_matches as exact sequences. Port graphs: cert_complete with proved entailment / refutation rules "
        "(c02_portgraph_partial, abstract semantics) is evaluated on every dump; the step to the concrete traversal is false in general (known classes D5, D6, D10) "
        "and proved where none of them interferes: c02_portgraph_run_complete_on_single_root_pattern_sets (any set of patterns none of which needs a second index root - "
        "aut_single_root / match_keys_in, evaluated as pg-srset on the dump of every automaton compiled from single-root patterns - and a pattern of the set passing "
        "pg_good_pattern: every embedding is reported by the run; special case c02_portgraph_run_reports_embeddings_of_good_patterns); otherwise decided by correspondence with the "
        "modelled traversal and the embedding oracle, with the known host-side classes.",
        "Coq proof of run completeness from verified certificates (trace-closure of the BFS + AND-OR completeness certificate) evaluated on the real "
        "automaton + differential correspondence + occurrence oracle",
        ["c02", "pg02", "pgm"]),
    "C03": aut_prop("translation_validation",
        "Theorem c03_accepts_iff_constraints: on an automaton passing both certificates, pattern i is accepted under a valuation iff all constraints "
        "of pattern i are true - i.e. exactly when the one-pattern matcher's constraints hold. Strings and matrices, down to the matchers: Theorems "
        "c03_string_many_equals_naive / c03_matrix_many_equals_naive - the modelled run on a certified automaton and the modelled NaiveManyMatcher report "
        "every pattern at exactly the same host positions (both = the occurrence specification). The certificates are evaluated per real automaton; ManyMatcher and "
        "NaiveManyMatcher are compared as sets of (pattern, bindings) incl. the match data on every generated host (strings, matrices, port graphs, "
        "table domain with six tree strategies). Port graphs, where the statement holds: c03_portgraph_single_then_many_on_single_root_sets / "
        "c03_portgraph_many_then_single_on_good_patterns - on automata that use keys of the first index root only (every set of single-root patterns) the "
        "modelled run and the modelled one-pattern matcher report the same matches of a good pattern, bindings included (a reported match is turned back into an "
        "embedding, Proofs/PGAgree.v); outside that class refuted (D10). Every domain: c03_recorded_keys_are_the_single_matcher_keys - the key list add_pattern records for a "
        "pattern (Model/Scopes.v, compared with every dump) has the same elements as the keys SinglePatternMatcher requests; c03_dump_records_the_single_matcher_keys.",
        "verified certificates (sound + complete) on the real automaton + Coq proof that run and naive matcher both equal the occurrence specification "
        "(strings) + ManyMatcher vs NaiveManyMatcher differential", ["c03", "pg03", "tab03", "pgm"]),
    "C04": aut_prop("translation_validation",
        "Theorem c04_heuristic_independent_acceptance: two certified automata for the same constraint lists accept the same patterns under the same "
        "valuations; every heuristic answer sequence is enumerated while the number of builds stays <= 24 (quick) / 256 (thorough), random beyond; "
        "each automaton is certified and all match multisets are compared pairwise. Port graphs: refuted in general (c04_portgraph_runs_differ_refuted, D10); "
        "c04_portgraph_runs_agree_on_single_root_pattern_sets - two certified automata over keys of the first index root (any heuristics, any pattern lists) "
        "report the same matches of a good pattern, with the same bindings; hypotheses evaluated per dump (pg-srset, pg-cover).",
        "verified certificates on every automaton of every enumerated heuristic answer sequence + pairwise multiset comparison", ["c04", "pg04", "tab03", "pgm"]),
    "C06": aut_prop("translation_validation",
        "Theorem c06_pattern_independent_acceptance (certified automata for pattern lists sharing a constraint list accept it identically); each "
        "pattern compiled alone vs inside the set, a rotated set with renumbering, duplicates; strings / matrices at run level: c06_{string,matrix}_runs_agree. "
        "Identifiers and fallback modes: Model/ManyGlue.v models ManyMatcher::try_from_patterns_with_det_heuristic around the builder and the pattern table; "
        "c06_skip_ids_are_input_positions, c06_fail_returns_first_error, c06_get_pattern_reflects_compiled, c06_n_patterns_counts_compiled; compared with the "
        "implementation on every table-domain pattern list with unconvertible patterns (glue cases: ids, n_patterns, get_pattern of every position, Ok/Err under Fail). "
        "Port graphs: c06_portgraph_runs_agree_on_single_root_pattern_sets (a good pattern at position i1 of one single-root list and i2 of another is reported alike).",
        "verified certificates + alone-vs-together / permutation differential + Coq model of the identifier / fallback glue", ["c06", "tab06"]),
    "C07": aut_prop("translation_validation",
        "Strings: Theorems c07_string_at_most_once / c07_string_exactly_once - on every automaton that passes wf_check and the unambiguity "
        "certificates (slab_ok: a signed labelling with alternatives, checked edge by edge; cert_unamb: two accepting entries of one pattern sit in "
        "states with contradictory labels; accept_vdet: all transitions into an accepting state deliver the same view of its keys unless their "
        "labels contradict; empty_scope_closed) the modelled run reports each (pattern, position) at most once, for every host and fuel; with "
        "the C01/C02 certificates the count is exactly 1 at an occurrence and 0 elsewhere, and the empty pattern is reported exactly once per host "
        "(c07_string_empty_pattern_once). The certificates are computed (unverified) and checked "
        "(verified) on the dump of every automaton built, under every heuristic. Matrices: each (pattern, anchor) found by "
        "the independent scan must be reported exactly once under every heuristic (multiset equality); the model traversal is compared as multisets of matches. "
        "Matrices, partial theorem c07_matrix_accepting_states_exclusive_partial: on an automaton that passes slab_ok and cert_unamb a pattern is accepted by at most "
        "one abstractly reachable state at every anchor of every host; these two certificates are evaluated on every matrix dump as information "
        "(coverage key informational_certificates_not_passed), not as a verdict: they are not complete for matrices.",
        "Coq proof of at-most-once from verified unambiguity certificates (trace of the BFS with distinct pruning keys + signed labelling) evaluated on "
        "the real automaton + multiset comparison with an independent occurrence oracle + differential correspondence", ["c07"]),
    "C09": aut_prop("translation_validation",
        "wf_check (proved to establish every clause of the property, Theorem c09_wf_check_sound / c09_clauses) is evaluated on the dump of every "
        "automaton built, for all enumerated heuristic answer sequences - all states, not only those a host visits. The last sentence of the property is also proved of "
        "the algorithm: Model/Scopes.v models AutomatonBuilder::populate_scopes / compute_scopes and add_pattern's key list; "
        "c09_populate_scopes_ordered_and_covering (on every transition graph, in any processing order, the scopes are prerequisite-first, repetition-free and contain the "
        "keys of the state's constraints) and c09_pattern_keys_ordered_and_covering; c09_recorded_keys_cover_the_pattern, c09_recorded_scopes_cover_the_constraints (the covering clause for the dumped automaton follows from the tie); the model recomputes scopes and recorded key lists on every dump and compares them as sets "
        "(case fields scopes / mkeys; strings, matrices, the table domain and port graphs; under the other properties these two fields are information only).",
        "verified structural checker (Coq soundness proof) run on the dump of every real automaton + Coq model of the scope computation compared with every dump", ["c09", "tab09", "pg09"]),
    "C05": {"subs": ["c05", "pg05", "pgm", "parse"], "level": "proof", "rule": AUT_RULE + "; for C05 each (pattern, host) pair is one case",
        "trusted_base": AUT_TB, "assumptions": AUT_ASSUME, "timeout": 3000,
        "explanation": "Strings and matrices: Theorems c05_{string,matrix}_single_exact / _match_exists_exact / _naive_exact - the modelled SinglePatternMatcher "
                       "reports exactly the occurrences (every reported binding is anchored at an occurrence and binds all constraint keys; every occurrence is "
                       "reported), match_exists is true iff an occurrence exists, NaiveManyMatcher numbers by position. "
                       "Multiplicity and order are not covered by a theorem. SinglePatternMatcher::find_matches / match_exists and NaiveManyMatcher are "
                       "compared with the extracted model (match lists as multisets) and with an independent occurrence scan; "
                       "pattern -> constraint vectors are compared exactly. Port graphs: soundness c05_portgraph_single_embeds (every reported match is an embedding); "
                       "completeness where it holds, c05_portgraph_single_reports_embeddings_of_good_patterns / _total: for patterns passing pg_good_pattern (single index root, "
                       "the pattern's own walks reach every keyed node) every embedding into a well-formed host is reported - walks commute with embeddings; refuted outside "
                       "that class (c05_portgraph_complete_refuted_*: the known findings D5, D6), where the oracle judges with the known classes; the model's pg_good_pattern is "
                       "evaluated on the pattern of every miss classified as a known finding (must be 0). Text front end (glue in front of the baselines): Model/Parse.v models "
                       "StringPattern::parse_str and MatrixPattern::parse_str (lines, Unicode white space, $x variables, - holes, the panic on a trailing $); compared through "
                       "try_to_constraint_vec on random texts (sub-check parse); c05_string_parse_print / c05_string_print_parse / c05_matrix_parse_print (printing and parsing are "
                       "mutually inverse), c05_string_parse_fails_only_on_trailing_dollar, c05_matrix_parse_fails_only_on_trailing_dollar. The constraint vectors are compared as multisets; c05_{string,matrix}_single_exact_in_any_constraint_order: the matcher built from any list with the same elements as the model's vector reports exactly the occurrences.",
        "technique": "Coq proof on the model of the single-pattern matcher (strings and matrices: exact set of anchors) + differential correspondence with that model + occurrence oracle"},
    "C11": {"subs": ["c11", "pg11", "pgm"], "level": "proof",
        "rule": "random patterns (as for C01) inside sets of 1-4 patterns; each pattern is matched against its own instantiation (variables instantiated "
                "consistently, also with equal characters for different variables; matrix holes filled), then along a random history of host extensions "
                "of length <= 6 (quick) / 20 (thorough); the same from an occurrence found in a random planted host; every check is one case; "
                "non-trivial = all of them (each involves an occurrence)",
        "trusted_base": AUT_TB, "assumptions": AUT_ASSUME + ["port graphs: matcher-level theorems for good patterns only (c11_portgraph_single_self_good, _extension_good; for the automaton c11_portgraph_matcher_{self,extension}_good and, inside any set of single-root patterns, ..._good_in_single_root_sets); refuted in general (D6)"], "timeout": 3000,
        "explanation": "Theorems c11_*: self-occurrence and preservation of occurrence under every extension step are proved on the occurrence "
                       "semantics for all patterns, hosts and histories (strings, matrices); that the occurrence is then reported by ManyMatcher and "
                       "SinglePatternMatcher at the corresponding anchor is checked on the implementation at every step of every generated history; "
                       "the Rust occurrence oracle is compared with the Coq specification on every host of every history.",
        "technique": "Coq proof on the occurrence specification + self/extension-history testing of the matchers against it"},
    "C17": {"subs": ["c17"], "level": "other",
        "rule": AUT_RULE + "; each case is built twice in-process under every heuristic (state count, dot rendering, match sequences compared) "
                "and, for the cross-process part, 150 (quick) / 1500 (thorough) cases are fingerprinted in 4 / 16 separate processes (different "
                "address-space layouts, different heap perturbation) and the outputs compared byte for byte",
        "trusted_base": AUT_TB + ["the source audit is a regular-expression scan of /repo/src for hash containers other than the crate-wide Fx aliases "
                                  "and for itertools adapters that return randomly seeded std HashMaps"],
        "assumptions": AUT_ASSUME + ["hasher seeds and address-space layout are runtime facts no executable model exhibits; the theorem part is thin by nature"],
        "timeout": 3000,
        "explanation": "reproducibility is decided by (i) a source audit regenerated on every run, (ii) building every case twice in one process, "
                       "(iii) fingerprinting the same cases in several separate processes; the Coq part only records that the modelled traversal is a "
                       "function of the dumped automaton and the host.",
        "technique": "source audit + in-process and cross-process differential comparison (theorem part trivial by construction)"},
    "C08": {"subs": ["c08", "pg08", "pgm"], "level": "exploration",
        "rule": AUT_RULE + "; plus a degenerate stream (empty pattern set, empty and one-cell patterns, every degenerate host: empty, ragged, "
                "non-ASCII) under Never / Default / a Custom sequence; construction of ManyMatcher, find_matches, NaiveManyMatcher and "
                "SinglePatternMatcher are all run under catch_unwind with overflow checks and debug assertions enabled",
        "trusted_base": AUT_TB, "assumptions": AUT_ASSUME + [
            "non-termination would show as the check's wall-clock timeout (reported as a broken obligation), stack exhaustion / allocation failure are not exhibited",
            "the harness is compiled once, in release mode with debug-assertions and overflow-checks on"],
        "timeout": 3000,
        "explanation": "Matching: Theorems c08_string_run_total / c08_matrix_run_total / c08_portgraph_run_total (+ c08_portgraph_run_no_panic) - on every automaton passing wf_check and arity_ok "
                       "(matrices: and keys_nn; all evaluated on every dump) the modelled traversal never reaches a panic site and terminates (explicit fuel bound from a weight that "
                       "decreases along the acyclic automaton; port graphs: the candidates of one bind_all are bounded because a root key offers at most one node per (known root, port)), "
                       "for every host. Baselines: c08_{string,matrix,portgraph}_single_total, c08_{string,matrix,portgraph}_naive_total - the modelled get_all_bindings / NaiveManyMatcher terminate "
                       "without panic on the constraints of every pattern (uses c12_*_terminates for the missing_bindings calls). Construction, last stage: c08_populate_scopes_total_partial "
                       "(the modelled populate_scopes returns - no index panic, explicit fuel bound - on every graph processed parents first). Component totality theorems (c08_*_partial) for the "
                       "toposort and retain_keys. Construction (the builder): panic/timeout exploration of every generated and degenerate case; Ok/Panic status of the "
                       "modelled traversal compared with the implementation on every dumped automaton.",
        "technique": "Coq totality theorems for matching (traversal on certified automata, baseline matchers) + catch_unwind / watchdog exploration of construction over generated and degenerate inputs"},
    "C10": {"subs": ["c10"], "level": "proof",
        "rule": "exhaustive: every ordered family of 1-3 not-equal sets over 3 (quick) / 4 (thorough) other keys on a common first key, each under "
                "all 3^n node assignments; random: lists of 1-7 character constraints (strings, matrices), mixed port-graph constraint lists, "
                "not-equal families with common or mixed first keys, conditioned(c, sat) calls, the helper constructors on plain data with "
                "several mutex relations; non-trivial = >= 2 constraints and a tree with >= 2 non-root nodes",
        "trusted_base": [KERNEL, EXTRACT, HARNESS, MODELLED + " (Model/CTree.v, CTreeChar.v, DomPGKeys.v <-> constraint_tree.rs, constraint_tree/build.rs, "
                         "string/constraint.rs, portgraph/constraint.rs, portgraph/constraint/mutex.rs, utils::sort_with_indices)"],
        "assumptions": COMMON_ASSUMPTIONS + ["IsConnected / HasNodeWeight are treated as opaque atoms in the brute-force faithfulness oracle (their truth is "
                                             "drawn per (predicate, argument values)); IsNotEqual is evaluated on the node assignment",
                                             "the first-satisfied-child reading of a make_det tree (Spec/TreeDet.v) is not part of the property (the traversal follows every satisfied transition "
                                             "of a deterministic state): it is proved of the shipped trees (c10_*_det_faithful) and evaluated by the harness as information only",
                                             "the make_det hint of a shipped decomposition is not part of the property (c10_statement_independent_of_make_det_hint): a tree that differs from "
                                             "the model's only in the hint is counted as tree_make_det_hint_differences, not as a disagreement; a wrong hint shows in C01-C07"],
        "timeout": 3000,
        "explanation": "Theorems c10_*: valid indices, presence of the (index of the) smallest constraint and faithfulness are proved for "
                       "with_children, with_pairwise_mutex, with_transitive_mutex, with_powerset (for every valuation under which conditioned is an "
                       "equivalence; c10_pg_conditioned_equiv shows the port-graph conditioned is one under every node assignment) and for the "
                       "string, matrix and port-graph decompositions (every valuation resp. every node assignment with arbitrary truth of the opaque "
                       "predicates). Every tree the implementation returns is compared node for node (labels, child order, make_det) with the "
                       "extracted model, and the three clauses are also checked by brute force over all truth assignments / small hosts.",
        "technique": "Coq proof (loop invariants of with_powerset, depth-one invariant of with_children) + exact tree comparison with the model + brute-force faithfulness"},
})
