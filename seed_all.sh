#!/bin/sh
# verify remaining mutants, then run every mutant against its target check and archive under /verif/seeded
cd /verif
for x in "C02 ''" "C02 2" "C03 ''" "C03 2" "C04 ''" "C04 2" "C06 ''" "C06 2" "C07 ''" "C07 2" "C08 ''" "C08 2" "C09 ''" "C09 2"; do eval /verif/verify_mutant.sh $x; done >> /tmp/verify_batch1.log 2>&1
for id in C01 C02 C03 C04 C05 C06 C07 C08 C09 C10 C11 C12 C13 C14 C15 C16 C17; do
  for sfx in "" 2; do
    src=/tmp/mut/$id/out
    [ -f $src/patch$sfx.diff ] || continue
    n=1; [ "$sfx" = "2" ] && n=2
    d=/verif/seeded/$id-$n
    mkdir -p $d
    cp $src/patch$sfx.diff $d/patch.diff
    cp $src/demo$sfx.rs $d/demo.rs 2>/dev/null
    cp $src/meta$sfx.json $d/agent_meta.json 2>/dev/null
    ./trial.sh $d/patch.diff $id > $d/check_result.txt 2>&1
    grep "^$id$sfx:" /tmp/verify_batch1.log | tail -1 > $d/verification.txt
  done
done
echo ALLDONE >> /tmp/seed_all.log
