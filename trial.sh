#!/bin/sh
# usage: trial.sh <patch.diff> <Cxx> [tier]   — apply a seeded change to /repo, run the check, undo it.
P=$1; ID=$2; TIER=${3:-quick}
cd /repo || exit 2
if [ -n "$(git status --porcelain --untracked-files=no)" ]; then echo "/repo not clean"; exit 2; fi
git apply "$P" || { echo "patch does not apply"; exit 2; }
cd /verif
cp evidence/$ID.json /tmp/evidence_backup_$ID.json 2>/dev/null
./check $ID --tier $TIER > /tmp/trial.out 2>&1; rc=$?
git -C /repo checkout -- .
# the evidence written while a seeded change was applied is not evidence about /repo: restore
cp /tmp/evidence_backup_$ID.json evidence/$ID.json 2>/dev/null
echo "exit=$rc"; grep -E "^(VIOLATION|KNOWN|OK|  )" /tmp/trial.out | head -8
