#!/bin/sh
# development helper: run one harness sub-check against the model and summarise
p=$1; tier=${2:-quick}
cd /verif
( cd harness && cargo build --release --offline 2>&1 | grep -E "^error" -A 12 | head -40 )
mkdir -p .build/run/t$p && PMV_PANIC=1 .build/cargo/release/pmv $p --tier $tier --seed ${SEED:-0} --out .build/run/t$p 2>&1 | tail -3
ocaml/_build/pmmodel < .build/run/t$p/cases.sexp > .build/run/t$p/model.out
python3 - $p <<'EOF'
import re,sys,json
p=sys.argv[1]
d='/verif/.build/run/t%s/'%p
r=open(d+'rust.out').read().split('\n'); m=open(d+'model.out').read().split('\n'); c=open(d+'cases.sexp').read().split('\n')
n=0
for i,(a,b) in enumerate(zip(r,m)):
    b=re.sub(r' #[A-Za-z0-9_-]+','',b)
    if a!=b:
        n+=1
        if n<3: print(c[i][:900]); print('R',a[:500]); print('M',b[:500])
print(p,'disagreements',n,'of',len(r)-1)
s=json.load(open(d+'stats.json')); print('violations',s['n_violations'], [v['what'][:400] for v in s['violations'][:3]])
print('evals',s['evaluations'],'nontrivial',s['distinct_nontrivial'])
EOF
